import json,sys
pid, wid = sys.argv[1], sys.argv[2]
avoid = sys.argv[3] if len(sys.argv) > 3 else ''
P = {json.loads(l)['id']: json.loads(l) for l in open('/verif/properties.jsonl')}[pid]
wt = '/tmp/wt/' + wid
files = ', '.join(P['anchors']['files'])
txt = f'''You are working in a scratch git worktree of the C++17 header-only parsing library taocpp/PEGTL at {wt} (headers in include/tao/pegtl, tests in src/test/pegtl, CMake build). Work ONLY inside {wt}. Do not read or touch /repo or /verif or any other directory under /tmp/wt. Do NOT use `git stash` (the stash is shared between worktrees) and do not commit.

The library is supposed to satisfy this semantic property:

"{pid}: {P['title']}. {P['statement']} (Quantified over: {P['quantifier']['text']})"

Your task: produce ONE realistic source change (a small edit to one or two headers under include/tao/pegtl, the kind of slip a maintainer could make in a refactoring or optimisation) that BREAKS this property while the library still compiles and the EXISTING test suite still passes completely. The change must need something specific to manifest — an unusual input, a particular template argument combination, a particular nesting of rules, a particular rewind/apply/tracking mode, a multi-step sequence, or two cooperating sites that each look fine alone — not something ordinary use would expose at once. Relevant files: {files}.{(' Choose a site other than: ' + avoid + '.') if avoid else ''}

Steps:
1. Read the relevant headers to choose a subtle change.
2. Apply the change in the worktree.
3. Build and run the existing tests: `cmake -G Ninja -B {wt}/_build -S {wt} -DPEGTL_BUILD_EXAMPLES=OFF >/dev/null && cmake --build {wt}/_build -j4 && ctest --test-dir {wt}/_build -j4`. ALL 134 tests must pass with your change. If a test fails, choose a different/subtler change.
4. Write a small standalone demonstration program {wt}/seed/demo.cpp (compile with `clang++ -std=c++17 -I{wt}/include`; add -fsanitize=address,undefined if you need it and then mention "fsanitize" in meta.json) that exits 0 when the property holds and non-zero (with a message) when it is violated; it must FAIL with your change and PASS on the unchanged code. Verify both: save the change first (`git diff -- include > {wt}/seed/patch.diff`), then `git apply -R {wt}/seed/patch.diff` to get the unchanged code, run the demo, and `git apply {wt}/seed/patch.diff` to restore the change.
5. Save the change as {wt}/seed/patch.diff (output of `git diff -- include`), and write {wt}/seed/meta.json with keys: property ("{pid}"), files_changed, what_it_breaks (one or two sentences), needs_to_manifest, commands_run (list), tests_passed (number).
6. Leave the worktree with the change applied. Remove the _build directory when done (rm -rf {wt}/_build) to save disk.

Report back: the diff, why the existing tests do not notice, and the demo's output with and without the change.'''
open(f'/tmp/wt/{wid}.prompt.txt','w').write(txt)
print(wid, len(txt))
