#!/usr/bin/env python3
"""vfcore -- group lowering cache, contract weaving, CBMC dfcc runs, result parsing."""
import os, sys, re, json, hashlib, subprocess, time, shutil, fcntl, resource
from concurrent.futures import ThreadPoolExecutor

VERIF = os.path.dirname(os.path.dirname(os.path.abspath(__file__)))
TOOLS = os.path.join(VERIF, 'tools')
WORK = os.environ.get('VF_WORK') or os.path.join(VERIF, '.work')
REPO = os.environ.get('VF_REPO', '/repo')
INCLUDE = os.path.join(REPO, 'include')
NCPU = int(os.environ.get('VF_JOBS', '16'))
CBMC_TIMEOUT = int(os.environ.get('VF_CBMC_TIMEOUT', '600'))
CBMC_MEM_KB = 12 * 1024 * 1024

CBMC_CHECKS = ['--bounds-check', '--pointer-check', '--pointer-overflow-check',
               '--signed-overflow-check', '--div-by-zero-check', '--pointer-primitive-check']


RUN_TAG = '_'      # set by vf.check to the property under check: checks of different properties may run side by side


def select_sections(text, prop):
    """loop-contract text may carry /*@IF Cnn@*/ ... /*@FI@*/ sections that only belong to the check of that property
    (a failing loop invariant cannot be attributed to one clause, so foreign conjuncts are left out instead)"""
    return re.sub(r'/\*@IF (\w+)@\*/(.*?)/\*@FI@\*/', lambda m: m.group(2) if m.group(1) == prop else '', text, flags=re.S)


class Undecided(Exception):
    pass


# ------------------------------------------------------------------ contracts
class Clause:
    def __init__(self, kind, text, tag='', props=()):
        self.kind = kind      # requires | ensures | assigns | raw
        self.text = text
        self.tag = tag
        self.props = tuple(props)


def R(text, tag='pre', props=()):
    return Clause('requires', text, tag, props)


def E(text, tag, props=()):
    return Clause('ensures', text, tag, props)


def A(text):
    return Clause('assigns', text)


class Contract:
    def __init__(self, *clauses):
        self.clauses = [c for c in clauses if c is not None]

    def add(self, *clauses):
        self.clauses += [c for c in clauses if c is not None]
        return self

    def render(self, subst=None):
        out = []
        for c in self.clauses:
            t = c.text
            if subst:
                for k, v in subst.items():
                    t = t.replace(k, v)
            if c.kind == 'raw':
                out.append(t)
            else:
                out.append('__CPROVER_%s(%s)' % (c.kind, t))
        return '\n'.join(out)

    def nth(self, kind, n):
        """n is 1-based index among clauses of `kind` (CBMC numbering)"""
        xs = [c for c in self.clauses if c.kind == kind]
        if 1 <= n <= len(xs):
            return xs[n - 1]
        return None


class Job:
    def __init__(self, name, group, root, contract, props, stubs=None, loops=None, prelude='',
                 harness='', flags=None, solver='sat', inline=None, expect_fail_canary=('canary_exit',),
                 replay=None, timeout=None, unwind=None, bounded=None, desc='', extra_enforce=None):
        self.name = name
        self.group = group
        self.root = root              # root function name in the TU (without the 'root_' prefix)
        self.contract = contract
        self.props = tuple(props)     # default attribution of untagged obligations
        self.stubs = stubs or []      # list of (regex on pretty name, Contract or callable(info)->Contract)
        self.loops = loops or {}      # {(regex on pretty, ordinal): text}
        self.prelude = prelude
        self.harness = harness
        self.flags = flags or []
        self.solver = solver
        self.expect_fail_canary = tuple(expect_fail_canary)
        self.replay = replay
        self.timeout = timeout
        self.unwind = unwind
        self.bounded = bounded        # None or a string describing the bound (=> never counted as proof)
        self.desc = desc
        self.ghost = {}               # {(regex on pretty, loop ordinal): ghost statements appended to the loop body}
        self.trusted = []
        self.serves = None
        # assume-guarantee summaries: [(regex on pretty, callable(fi)->C body text, [roots of the jobs that prove the real
        # function against the contract the body implements])]; the matched function's body is replaced by the text
        self.summaries = []


# ------------------------------------------------------------------- lowering
def sha(*parts):
    h = hashlib.sha256()
    for p in parts:
        h.update(p if isinstance(p, bytes) else p.encode())
    return h.hexdigest()[:16]


def tree_hash(root):
    h = hashlib.sha256()
    for dp, dn, fn in sorted(os.walk(root)):
        dn.sort()
        for f in sorted(fn):
            p = os.path.join(dp, f)
            h.update(p.encode())
            with open(p, 'rb') as fh:
                h.update(fh.read())
    return h.hexdigest()[:16]


_tree_hash_cache = {}


def include_hash():
    if 'h' not in _tree_hash_cache:
        _tree_hash_cache['h'] = tree_hash(INCLUDE)
    return _tree_hash_cache['h']


def tools_hash():
    if 't' not in _tree_hash_cache:
        h = hashlib.sha256()
        for f in ('cxxast.py', 'cxx2c.py', 'cxx2c_expr.py', 'cxx2c_stmt.py', 'cxx2c_models.py'):
            p = os.path.join(TOOLS, f)
            if os.path.exists(p):
                h.update(open(p, 'rb').read())
        _tree_hash_cache['t'] = h.hexdigest()[:16]
    return _tree_hash_cache['t']


def lower_group(name, tu_text, log=None):
    """returns (lowered_c_path, info dict). Cached on (include tree, TU text, tools)."""
    key = sha(include_hash(), tu_text, tools_hash())
    gdir = os.path.join(WORK, 'groups', name)
    os.makedirs(gdir, exist_ok=True)
    lock = open(os.path.join(gdir, '.lock'), 'w')
    fcntl.flock(lock, fcntl.LOCK_EX)
    try:
        kdir = os.path.join(gdir, key)
        cpath = os.path.join(kdir, 'lowered.c')
        ipath = os.path.join(kdir, 'info.json')
        if os.path.exists(cpath) and os.path.exists(ipath):
            return cpath, json.load(open(ipath))
        # drop stale keys of this group (not the recent ones: another check that started before the tree changed may still read them)
        for d in os.listdir(gdir):
            if d != '.lock' and d != key:
                try:
                    if time.time() - os.path.getmtime(os.path.join(gdir, d)) > 2 * 3600:
                        shutil.rmtree(os.path.join(gdir, d), ignore_errors=True)
                except OSError:
                    pass
        os.makedirs(kdir, exist_ok=True)
        tu = os.path.join(kdir, 'tu.cpp')
        open(tu, 'w').write(tu_text)
        js = os.path.join(kdir, 'ast.json')
        t0 = time.time()
        with open(js, 'w') as out:
            p = subprocess.run(['clang++', '-std=c++17', '-I', INCLUDE, '-I', os.path.join(VERIF, 'inst'),
                                '-fsyntax-only', '-Xclang', '-ast-dump=json', tu],
                               stdout=out, stderr=subprocess.PIPE, text=True)
        if p.returncode != 0:
            try:
                os.remove(js)
            except OSError:
                pass
            raise Undecided('clang failed on TU of group %s:\n%s' % (name, p.stderr[-3000:]))
        p = subprocess.run([sys.executable, os.path.join(TOOLS, 'cxx2c.py'), js, '--out', cpath + '.tmp', '--info', ipath + '.tmp'],
                           capture_output=True, text=True)
        for f in (js, js + '.pkl'):
            try:
                os.remove(f)
            except OSError:
                pass
        if p.returncode != 0:
            raise Undecided('cxx2c failed for group %s: %s' % (name, (p.stderr or p.stdout)[-3000:]))
        os.rename(cpath + '.tmp', cpath)
        os.rename(ipath + '.tmp', ipath)
        info = json.load(open(ipath))
        info['_lower_s'] = time.time() - t0
        json.dump(info, open(ipath, 'w'))
        return cpath, info
    finally:
        fcntl.flock(lock, fcntl.LOCK_UN)
        lock.close()


# -------------------------------------------------------------------- weaving
def find_fn(info, pattern, among=None):
    rx = re.compile(pattern)
    out = []
    for cn, fi in info['functions'].items():
        if among is not None and cn not in among:
            continue
        if rx.search(fi.get('pretty', '')):
            out.append(cn)
    return sorted(out)


def reachable(info, start, stop=()):
    """functions reachable from start; callees of functions in `stop` (replaced by their contract) are not followed"""
    seen = set()
    stack = [start]
    while stack:
        c = stack.pop()
        if c in seen:
            continue
        seen.add(c)
        if c in stop:
            continue
        for d in info['functions'].get(c, {}).get('calls', []):
            stack.append(d)
    return seen


def entry_of(info, root):
    rn = 'root_' + root
    if rn not in info['roots']:
        raise Undecided('root %s not in lowered group' % rn)
    rc = info['roots'][rn]
    calls = info['functions'][rc].get('calls', [])
    if len(calls) != 1:
        raise Undecided('root %s calls %d functions (expected exactly 1): %s' % (rn, len(calls), calls))
    return rc, calls[0]


def weave(job, cpath, info, outdir, witness_mode=False):
    """produce the woven C file for one job; returns dict with paths and maps"""
    src = open(cpath).read()
    rootc, entry = entry_of(info, job.root)
    reach = reachable(info, entry)
    fi = info['functions'][entry]
    contracts = {entry: job.contract}
    replaced = []
    for st_ in job.stubs:
        pat, con = st_[0], st_[1]
        hits = find_fn(info, pat, reach)
        if not [h for h in hits if h != entry] and not (len(st_) > 2 and st_[2] == 'opt'):
            raise Undecided('stub pattern %r matches no function reachable from the entry (renamed or no longer called)' % pat)
        for cn in hits:
            if cn == entry:
                continue
            c = con(info['functions'][cn]) if callable(con) else con
            if c is None:
                raise Undecided('stub pattern %r matches %s but yields no contract' % (pat, info['functions'][cn]['pretty']))
            if cn in contracts:
                raise Undecided('two stub patterns match %s' % info['functions'][cn]['pretty'])
            if witness_mode and info['functions'][cn].get('kind') == 'lifted':
                continue      # witness search: run the real callee body instead of its contract
            if info['functions'][cn].get('kind') == 'lifted' and info['functions'][cn].get('may_throw') is False \
                    and not any('vf_exc.pending == 0' in x.text for x in c.clauses if x.kind == 'ensures'):
                # the lowering found that this instantiation cannot throw (and emits no exception check after
                # calls to it): its contract must not be able to raise either
                c = Contract(*(list(c.clauses) + [E('vf_exc.pending == __CPROVER_old(vf_exc.pending)', 'stub-cannot-raise')]))
            contracts[cn] = c
            replaced.append(cn)
    # assume-guarantee summaries: the body of a callee is replaced by an executable form of a contract that another
    # job proves on the real body of exactly the same instantiation
    summarised = {}
    for pat, body_fn, provers in getattr(job, 'summaries', []):
        hits = [h for h in find_fn(info, pat, reach) if h != entry]
        if not hits:
            raise Undecided('summary pattern %r matches no function reachable from the entry' % pat)
        proved = {}
        for r in provers:
            try:
                proved[entry_of(info, r)[1]] = r
            except Undecided:
                pass
        for cn in hits:
            if cn not in proved:
                raise Undecided('summary used for %s but no job proves that instantiation' % info['functions'][cn]['pretty'])
            if cn in contracts:
                raise Undecided('function %s is both stubbed and summarised' % cn)
            summarised[cn] = (body_fn(info['functions'][cn]), proved[cn])
    # what lies behind a replaced call is not part of this proof
    reach = reachable(info, entry, stop=set(replaced) | set(summarised))
    for cn in list(summarised):
        if cn not in reach:       # only reachable through another summarised or replaced callee
            del summarised[cn]
    for cn in list(contracts):
        if cn != entry and cn not in reach:
            del contracts[cn]
            replaced.remove(cn)
    # every bodiless function reachable from the entry needs a contract; library functions on opaque library
    # objects (std::string and friends, demangle) get the trusted default contract "touches only its own opaque objects"
    trusted = []
    for cn in sorted(reach):
        f = info['functions'].get(cn, {})
        if f.get('kind') == 'extern' and cn not in contracts and cn not in ('memcmp', 'memcpy', 'memmove', 'strlen', 'memset'):
            pretty = f.get('pretty', '')
            if re.search(r'(^|\s)(std::|tao::pegtl::demangle|__gnu_cxx::)', pretty.split('(')[0]) or pretty.startswith('std::'):
                targets = []
                sig = f.get('sig', '')
                rt = sig.split('(')[0].rsplit(' ', 1)[0].strip() if '(' in sig else ''
                m_rt = re.match(r'struct (S_\w+)\*$', rt)
                if not (rt == 'void' or (m_rt and ('struct %s {' % m_rt.group(1)) in src and 'opaque library type' in src.split('struct %s {' % m_rt.group(1))[1][:200])):
                    # a result that the caller computes with would be unconstrained under the default contract: never guess
                    raise Undecided('library function without a model whose result matters: %s' % pretty)
                for m_ in re.finditer(r'struct (S_\w+)\* (\w+)(?=[,)])', sig[sig.index('('):] if '(' in sig else ''):
                    if 'opaque library type' in src.split('struct %s {' % m_.group(1))[1][:200] if ('struct %s {' % m_.group(1)) in src else False:
                        targets.append('*%s' % m_.group(2))
                contracts[cn] = Contract(R('1', 'trusted-library'), Clause('assigns', ', '.join(targets)))
                replaced.append(cn)
                trusted.append(pretty)
                continue
            raise Undecided('reachable external function without contract: %s' % f.get('pretty'))
    # loops
    loops = {}
    for lk, text in job.loops.items():
        pat, ordn = lk[0], lk[1]
        hits = find_fn(info, pat, reach)
        if not hits:
            if len(lk) > 2 and lk[2] == 'opt':
                continue      # the job also covers an implementation without this loop (e.g. a library algorithm under a model contract)
            raise Undecided('loop contract pattern %r matches no reachable function' % pat)
        for cn in hits:
            if ordn not in info['functions'][cn].get('loops', []):
                raise Undecided('function %s has no loop #%d (loop structure changed)' % (info['functions'][cn]['pretty'], ordn))
            loops[(cn, ordn)] = text
    # every loop in a reachable lifted function must have a loop contract unless the job unwinds
    missing = []
    for cn in sorted(reach):
        f = info['functions'].get(cn, {})
        if f.get('kind') == 'lifted' and cn not in replaced and cn not in summarised:
            for o in f.get('loops', []):
                if (cn, o) not in loops:
                    missing.append('%s#%d' % (f['pretty'], o))
    if witness_mode:
        loops = {}
        missing = []
    if missing and job.unwind is None:
        raise Undecided('loops without loop contract and no unwind bound: %s' % missing)

    def sub_contract(m):
        cn = m.group(1)
        c = contracts.get(cn)
        if c is None:
            return ''
        txt = late_subst(c.render())
        if cn == entry:
            # the contract vocabulary calls the input parameter `in`; an unnamed C++ parameter is lowered as _pN
            names = [p['name'] for p in fi.get('params', [])]
            if names and 'in' not in names and names[0].startswith('_p'):
                txt = re.sub(r'\bin\b', names[0], txt)
        return txt

    def sub_loop(m):
        cn, o = m.group(1), int(m.group(2))
        return loops.get((cn, o), '')

    def site_sub(m):
        hits = [c for c in find_fn(info, m.group(1), reach) if 'site_id' in info['functions'][c]]
        if not hits:
            return '(-1)'     # no such raise site is reachable: a clause that demands an exception from it cannot hold (reported as its failure)
        if len(hits) != 1:
            raise Undecided('$SITE{%s} matches %d throwing functions' % (m.group(1), len(hits)))
        return str(info['functions'][hits[0]]['site_id'])

    def exc_sub(m):
        for t, i in info.get('exc_types', {}).items():
            if t == m.group(1) or t.endswith('::' + m.group(1)) or t.split('<')[0] == m.group(1):
                return str(i)
        raise Undecided('$EXC{%s}: no such exception type in the lowered group' % m.group(1))

    def late_subst(txt):
        txt = re.sub(r'\$SITE\{([^}]*)\}', site_sub, txt)
        return re.sub(r'\$EXC\{([^}]*)\}', exc_sub, txt)

    # drop the bodies of functions that are not reachable from the function under contract (other instantiations
    # of the same group): they are not part of this proof and only slow the front end down
    keep = set(reach) | {rootc}

    def prune(m):
        return m.group(0) if m.group(1) in keep else '/* (pruned: %s not reachable from the entry) */' % m.group(1)
    src = re.sub(r'/\*@FN (\w+)@\*/\n.*?\n/\*@ENDFN@\*/', prune, src, flags=re.S)
    for cn, (body, prover) in summarised.items():
        rx = re.compile(r'(/\*@FN %s@\*/\n.*?/\*@CONTRACT %s@\*/\n)\{\n.*?\n\}\n(/\*@ENDFN@\*/)' % (cn, cn), re.S)
        if not rx.search(src):
            raise Undecided('cannot place the summary of %s' % cn)
        src = rx.sub(lambda m: m.group(1) + '{ /* SUMMARY (proved on the real body by job %s) */\n%s\n}\n' % (prover, body) + m.group(2), src, count=1)
    out = src.replace('/*@PRELUDE@*/', '/* ---- prelude (spec side) ---- */\n' + late_subst(job.prelude))
    out = re.sub(r'/\*@CONTRACT (\w+)@\*/', sub_contract, out)
    out = re.sub(r'/\*@LOOP (\w+) (\d+)@\*/', sub_loop, out)
    ghost = {}
    for (pat, ordn), text in getattr(job, 'ghost', {}).items():
        for cn in find_fn(info, pat, reach):
            ghost[(cn, ordn)] = text
    out = re.sub(r'/\*@LOOPEND (\w+) (\d+)@\*/', lambda m: ghost.get((m.group(1), int(m.group(2))), ''), out)
    h = job.harness
    h = h.replace('$ENTRY', entry).replace('$ROOT', rootc)

    def rec_sub(m):
        want = m.group(1)
        for tag, pretty in info['records'].items():
            if pretty == want:
                return tag
        raise Undecided('record %s not present in lowered group' % want)
    h = re.sub(r'\$REC\{([^}]*)\}', rec_sub, h)
    # ghost code may only assign ghost variables (names starting with g_)
    for text in ghost.values():
        for m in re.finditer(r'([A-Za-z_][\w\.\->\[\]]*)\s*(=(?!=)|\+\+|--|\+=|-=)', text):
            if not m.group(1).startswith('g_'):
                raise Undecided('ghost code assigns a non-ghost variable: %s' % m.group(1))
    for i, pi in enumerate(fi.get('params', [])):
        h = h.replace('$P%d' % i, pi['name'])
    out += '\n/* ---- harness (spec side) ---- */\n' + h + '\n'
    os.makedirs(outdir, exist_ok=True)
    path = os.path.join(outdir, 'woven.c')
    open(path, 'w').write(out)
    return {'path': path, 'entry': entry, 'replaced': replaced, 'contracts': contracts, 'loops': loops, 'trusted': trusted,
            'has_loops': bool(loops), 'summarised': {cn: v[1] for cn, v in summarised.items()}}


_toolver = {}


def TOOLVER():
    if 'v' not in _toolver:
        try:
            v = subprocess.run(['cbmc', '--version'], capture_output=True, text=True).stdout.strip()
        except Exception:
            v = '?'
        _toolver['v'] = v + '|' + tools_hash()
    return _toolver['v']


# ------------------------------------------------------------------- running
def _limit():
    resource.setrlimit(resource.RLIMIT_AS, (CBMC_MEM_KB * 1024, CBMC_MEM_KB * 1024))


def run_cmd(cmd, timeout, log):
    t0 = time.time()
    try:
        p = subprocess.run(cmd, capture_output=True, text=True, timeout=timeout, preexec_fn=_limit)
        rc, so, se = p.returncode, p.stdout, p.stderr
    except subprocess.TimeoutExpired as ex:
        rc, so, se = -999, (ex.stdout or b'').decode() if isinstance(ex.stdout, bytes) else (ex.stdout or ''), 'TIMEOUT'
    log.write('$ %s\n[rc=%s, %.1fs]\n' % (' '.join(cmd), rc, time.time() - t0))
    return rc, so, se, time.time() - t0


def run_job(job, cpath, info, tier, defines=(), subdir=None, witness_mode=False, timeout=None):
    """returns result dict: status in {'ok','failed','undecided'}, obligations list"""
    jdir = os.path.join(WORK, 'jobs', RUN_TAG, job.group, job.name + (subdir or ''))
    shutil.rmtree(jdir, ignore_errors=True)
    os.makedirs(jdir, exist_ok=True)
    res = {'job': job.name, 'group': job.group, 'root': job.root, 'status': 'undecided', 'reason': '',
           'obligations': [], 'solver_s': 0.0, 'backend': job.solver, 'dir': jdir, 'bounded': job.bounded}
    log = open(os.path.join(jdir, 'log.txt'), 'w')
    try:
        try:
            w = weave(job, cpath, info, jdir, witness_mode)
        except Undecided as ex:
            res['reason'] = 'weave: %s' % ex
            return res
        res['entry'] = w['entry']
        res['entry_pretty'] = info['functions'][w['entry']]['pretty']
        # content-addressed result cache: the woven C text is regenerated from /repo on every run; only a solver
        # run on byte-identical input (same woven text, same flags, same tools) is reused
        # (source locations in comments name the work directory and the include root: not part of the program)
        wtext = re.sub(r'/[^\s:*"]*/groups/\w+/[0-9a-f]{8,}/', '<GROUP>/', open(w['path']).read())
        wtext = re.sub(r'/[^\s:*"]*?/include/tao/pegtl/', '<INCLUDE>/tao/pegtl/', wtext)
        ckey = sha(wtext, repr(list(defines)), repr(job.flags), str(job.unwind), job.solver,
                   repr(CBMC_CHECKS), str(witness_mode), TOOLVER())
        cfile = os.path.join(WORK, 'cache', ckey + '.json')
        if os.path.exists(cfile) and not os.environ.get('VF_NOCACHE'):
            try:
                cres = json.load(open(cfile))
                cres['contracts'] = w['contracts']
                cres['dir'] = jdir
                cres['cached'] = True
                return cres
            except Exception:
                pass
        res['_cfile'] = cfile
        res['replaced'] = [info['functions'][c]['pretty'] for c in w['replaced']]
        res['summarised'] = ['%s (proved by job %s)' % (info['functions'][c]['pretty'], r) for c, r in w.get('summarised', {}).items()]
        res['trusted_library_calls'] = w.get('trusted', [])
        a = os.path.join(jdir, 'a.gb'); b = os.path.join(jdir, 'b.gb')
        rc, so, se, dt = run_cmd(['goto-cc', '--function', 'main', '-DVF_CBMC'] + list(defines) + ['-I', os.path.join(VERIF, 'contracts'),
                                  w['path'], '-o', a], 120, log)
        if rc != 0:
            res['reason'] = 'goto-cc: ' + (se + so)[-2000:]
            log.write(se + so)
            return res
        # only replace calls to functions that are present in the binary
        rc, so, se, dt = run_cmd(['goto-instrument', '--list-goto-functions', a], 120, log)
        present = set(re.findall(r'^(\w+) /\*', so, re.M)) | set(re.findall(r'^\s*(\w+)\s*$', so, re.M))
        cmd = ['goto-instrument', '--dfcc', 'main', '--enforce-contract', w['entry']]
        for c in w['replaced']:
            if c in so:
                cmd += ['--replace-call-with-contract', c]
        if w['has_loops']:
            cmd += ['--apply-loop-contracts']
        cmd += [a, b]
        rc, so, se, dt = run_cmd(cmd, 300, log)
        log.write(so[-4000:] + se[-4000:])
        if rc != 0:
            res['reason'] = 'goto-instrument: ' + (se + so)[-2000:]
            return res
        cmd = ['cbmc', b] + CBMC_CHECKS + ['--json-ui', '--trace'] + job.flags
        if witness_mode:
            cmd += ['--unwind', '30']
        elif job.unwind is not None:
            cmd += ['--unwind', str(job.unwind), '--unwinding-assertions']
        if job.solver == 'sat':
            cmd += ['--sat-solver', 'cadical']
        if job.solver == 'z3':
            cmd += ['--z3']
        elif job.solver == 'cvc5':
            cmd += ['--cvc5']
        res['checker_cmd'] = ' '.join(cmd)
        rc, so, se, dt = run_cmd(cmd, timeout or job.timeout or CBMC_TIMEOUT, log)
        res['solver_s'] = round(dt, 2)
        if os.environ.get('VF_KEEP'):
            open(os.path.join(jdir, 'cbmc.json'), 'w').write(so)
        for f_ in (a, b):
            try:
                os.remove(f_)
            except OSError:
                pass
        if rc == -999:
            res['reason'] = 'cbmc timeout after %ss' % (job.timeout or CBMC_TIMEOUT)
            return res
        try:
            msgs = json.loads(so)
        except Exception:
            res['reason'] = 'cbmc output not JSON: ' + (so[-500:] + se[-500:])
            return res
        results = None
        texts = []
        for m in msgs:
            if isinstance(m, dict):
                if 'result' in m:
                    results = m['result']
                if 'messageText' in m:
                    texts.append(m['messageText'])
        alltext = '\n'.join(texts)
        for bad in ('ignoring forall', 'ignoring exists', 'Parse Error', 'VERIFICATION ERROR', 'CONVERSION ERROR',
                    'no body for function'):
            if bad in alltext and not (bad == 'no body for function'):
                res['reason'] = 'cbmc log contains %r' % bad
                return res
        nobody = re.findall(r'no body for (?:function|callee) (\S+)', alltext)
        if nobody:
            res['reason'] = 'cbmc: no body for %s' % sorted(set(nobody))
            return res
        if results is None:
            res['reason'] = 'cbmc produced no result list: ' + (alltext[-800:] + ' ' + se[-300:])
            return res
        obs = []
        for r in results:
            ob = {'name': r.get('property'), 'desc': r.get('description'), 'status': r.get('status'),
                  'line': (r.get('sourceLocation') or {}).get('line'), 'fn': (r.get('sourceLocation') or {}).get('function')}
            if r.get('status') == 'FAILURE' and 'trace' in r:
                # keep what witness extraction and the replay file need: ghost / witness assignments, the failure step,
                # and the tail of the trace (full traces are tens of MB per job)
                tr_ = r['trace']
                keep = [s_ for s_ in tr_[:-80] if s_.get('stepType') == 'failure' or
                        (s_.get('stepType') == 'assignment' and str(s_.get('lhs', '')).startswith(('w_', 'g_')))]
                slim = []
                for s_ in keep + tr_[-80:]:
                    slim.append({k_: s_[k_] for k_ in ('stepType', 'lhs', 'value', 'reason', 'property', 'sourceLocation') if k_ in s_})
                ob['trace'] = slim
            obs.append(ob)
        res['obligations'] = obs
        if not obs:
            res['reason'] = 'zero obligations'
            return res
        # a loop contract that was silently dropped shows as missing loop_invariant obligations
        if w['has_loops'] and not any('loop_invariant_step' in (o['name'] or '') or 'loop invariant' in (o['desc'] or '').lower() for o in obs):
            res['reason'] = 'loop contracts given but no loop-invariant obligation was generated'
            return res
        res['status'] = 'done'
        try:
            os.makedirs(os.path.dirname(res['_cfile']), exist_ok=True)
            tmp = res['_cfile'] + '.%d.tmp' % os.getpid()
            json.dump({k: v for k, v in res.items() if k not in ('contracts', '_cfile')}, open(tmp, 'w'))
            os.rename(tmp, res['_cfile'])
        except Exception:
            pass
        res['contracts'] = w['contracts']
        return res
    finally:
        log.close()


def classify(ob, res, job):
    """attribute one obligation: returns (tag, props, clause-kind)"""
    name = ob['name'] or ''
    desc = ob['desc'] or ''
    contracts = res.get('contracts', {})
    m = re.match(r'(\w+)\.postcondition\.(\d+)$', name)
    if m and m.group(1) in contracts:
        c = contracts[m.group(1)].nth('ensures', int(m.group(2)))
        if c is not None:
            return c.tag, (c.props or job.props), 'postcondition'
    m = re.match(r'(\w+)\.precondition\.(\d+)$', name)
    if m:
        # precondition of a replaced callee, checked at the call site; description names the callee
        m2 = re.search(r'contract::(\w+)', desc)
        callee = m2.group(1) if m2 else None
        if callee in contracts:
            c = contracts[callee].nth('requires', int(m.group(2)))
            if c is not None:
                return c.tag, (c.props or job.props), 'callee-precondition'
    if '.pointer_dereference.' in name or '.pointer_arithmetic.' in name or '.array_bounds.' in name \
            or '.pointer_primitives.' in name or 'pointer' in name.split('.')[-2:-1]:
        return 'memory-safety', (('C03',) if 'C03' in job.props else job.props), 'pointer'
    if '.overflow.' in name:
        return 'arithmetic-overflow', job.props, 'overflow'
    if 'repo_assert' in desc:
        return 'repo-assert', job.props, 'assert'
    if 'repo_terminate' in desc:
        return 'repo-terminate', job.props, 'assert'
    if '.assigns.' in name or 'is assignable' in desc:
        return 'frame', job.props, 'assigns'
    if 'loop_invariant' in name or 'loop invariant' in desc.lower():
        return 'loop-invariant', job.props, 'loop'
    if 'loop_decreases' in name or 'decreases' in desc.lower():
        return 'loop-decreases', job.props, 'loop'
    if 'unwind' in name:
        return 'unwinding', job.props, 'unwind'
    return 'other', job.props, 'other'


def trim_cache(limit_mb=6000):
    d = os.path.join(WORK, 'cache')
    try:
        files = [(os.path.getmtime(os.path.join(d, f)), os.path.getsize(os.path.join(d, f)), os.path.join(d, f)) for f in os.listdir(d)]
    except OSError:
        return
    total = sum(x[1] for x in files)
    for mt, sz, path in sorted(files):
        if total <= limit_mb * 1024 * 1024:
            break
        try:
            os.remove(path); total -= sz
        except OSError:
            pass


def run_jobs(jobs, groups, tier, progress=None):
    trim_cache()
    """groups: {name: (cpath, info)}"""
    out = []
    with ThreadPoolExecutor(max_workers=NCPU) as ex:
        futs = []
        for j in jobs:
            cpath, info = groups[j.group]
            futs.append((j, ex.submit(run_job, j, cpath, info, tier)))
        for j, f in futs:
            r = f.result()
            out.append((j, r))
            if progress:
                progress(j, r)
    return out
