"""statement / function lowering (mixin for Lowerer)"""
import re
from cxxast import Unsupported, RECORD_KINDS, FUNC_KINDS, parse_type, strip_cv, sanitize, short_hash
from cxx2c_expr import unwrap

SKIP_DECLS = ('TypeAliasDecl', 'TypedefDecl', 'StaticAssertDecl', 'UsingDecl', 'UsingDirectiveDecl',
              'CXXRecordDecl', 'EmptyDecl', 'UsingShadowDecl')


class StmtMixin:
    # -------------------------------------------------------- scope handling
    def push_scope(self, cx, kind='block'):
        cx.scopes.append({'kind': kind, 'dtors': []})

    def pop_scope(self, cx):
        return cx.scopes.pop()

    def dtor_call(self, cexpr, rid, cx):
        """C statements destroying the object cexpr of record rid"""
        if self.rec_trivial_dtor(rid) or self.rec_is_external(rid) and not self.model_record(rid):
            return []
        m = self.model_dtor(rid, cexpr, cx)
        if m is not None:
            return m
        d = self.find_dtor(rid)
        if d is None:
            raise Unsupported('no destructor found for ' + self.rec_pretty(rid))
        d = self.ast.definition(d)
        if self.ast.body(d) is None and not (d.get('isImplicit') or d.get('explicitlyDefaulted')):
            return ['%s(&%s);' % (self.fn_cname(d), cexpr)]      # user-declared destructor without a body here: opaque stub
        if self.ast.body(d) is None:
            # implicit/defaulted non-trivial destructor: destroy members in reverse order
            rec = self.ast.record_def(rid)
            out = []
            for f in reversed(self.ast.fields(rec)):
                fti = self.tinfo(self.decl_type_str(f), f)
                if fti['kind'] == 'rec' and not fti['suf']:
                    out += self.dtor_call('%s.%s' % (cexpr, f['name']), fti['rec'], cx)
            bi = len(self.ast.bases(rec))
            for b in reversed(self.ast.bases(rec)):
                bi -= 1
                r = self.resolve_base(strip_cv(self.ast.tstr(b['type'])), rec)
                if r[0] == 'rec':
                    out += self.dtor_call('%s._b%d' % (cexpr, bi), r[1], cx)
            return out
        return ['%s(&%s);' % (self.fn_cname(d), cexpr)]

    def model_record(self, rid):
        return False

    def model_dtor(self, rid, cexpr, cx):
        return None

    def unwind_lines(self, cx, down_to):
        """dtor calls for scopes with index >= down_to, innermost first"""
        out = []
        for sc in reversed(cx.scopes[down_to:]):
            for cexpr, rid in reversed(sc['dtors']):
                out += self.dtor_call(cexpr, rid, cx)
        return out

    def dummy_return(self, cx):
        if cx.ret_ctype == 'void' or cx.sret:
            return 'return;'
        if cx.ret_ctype.startswith('struct ') and not cx.ret_ctype.endswith('*'):
            return 'return (%s){0};' % cx.ret_ctype
        return 'return 0;'

    def during_unwind(self, lines):
        """destructors of an exceptional edge run with the exception in flight but not `pending` for the code
        they call; an exception leaving such a destructor is std::terminate"""
        if not lines:
            return []
        return ['{ struct vf_exc_t _sv = vf_exc; vf_exc.pending = 0;'] + lines + \
               ['__CPROVER_assert(!vf_exc.pending, "repo_terminate exception thrown by a destructor during stack unwinding");',
                'vf_exc = _sv; }']

    def exc_edge(self, cx):
        """statements executed right after a call that may have raised"""
        if cx.nothrow_ctx():
            return ['__CPROVER_assert(!vf_exc.pending, "repo_terminate exception escapes noexcept function %s");' % cx.cname]
        if cx.try_stack:
            lbl, depth = cx.try_stack[-1]
            body = self.during_unwind(self.unwind_lines(cx, depth))
            return ['if (vf_exc.pending) { %s goto %s; }' % (' '.join(body), lbl)]
        body = self.during_unwind(self.unwind_lines(cx, 0))
        return ['if (vf_exc.pending) { %s %s }' % (' '.join(body), self.dummy_return(cx))]

    # -------------------------------------------------------------- throw
    def exc_type_id(self, tstr):
        if tstr not in self.exc_types:
            self.exc_types[tstr] = len(self.exc_types) + 1
        return self.exc_types[tstr]

    def site_id(self, cx):
        """numeric id of the function containing a throw: lets contracts say WHICH rule's raise() fired"""
        self.sites = getattr(self, 'sites', {})
        if cx.cname not in self.sites:
            self.sites[cx.cname] = len(self.sites) + 1
        return self.sites[cx.cname]

    def throw(self, e, cx):
        inner = e.get('inner', [])
        if not inner:
            # rethrow
            self.emit_pre(cx, 'vf_exc.pending = 1;')
            for l in self.exc_edge_throw(cx):
                self.emit_pre(cx, l)
            return
        self.throw_value(inner[0], cx, nested=False)

    def throw_value(self, valnode, cx, nested):
        x = unwrap(valnode, ('ExprWithCleanups', 'CXXBindTemporaryExpr', 'ParenExpr', 'CXXFunctionalCastExpr',
                             'MaterializeTemporaryExpr', 'ImplicitCastExpr'))
        ts = self.etype(valnode)
        base, _ = parse_type(ts)
        tid = self.exc_type_id(base)
        tag = sanitize(base.split('<')[0].split('::')[-1])
        args = []
        sig = []
        if x.get('kind') in ('CXXConstructExpr', 'CXXTemporaryObjectExpr'):
            for a in x.get('inner', []):
                saved_pre, saved_tmp = list(cx.pre), cx.tmp
                try:
                    ati = self.einfo(a)
                    if ati['kind'] == 'rec' and self.rec_is_external(ati['rec']):
                        raise Unsupported('external')
                    if ati['kind'] == 'rec' and not ati['suf']:
                        v = '&%s' % self.lv(a, cx); ct = self.decl_of(ati) + '*'
                    else:
                        v = self.rv(a, cx); ct = self.decl_of(ati)
                    args.append(v); sig.append(ct)
                except Unsupported:
                    cx.pre = saved_pre
                    continue
        name = 'vf_throw_%s%s_%d_%s' % ('nested_' if nested else '', tag, len(args), short_hash(base + '|' + '|'.join(sig), 6))
        if name not in self.fn_text:
            ps = ', '.join('%s a%d' % (t, i) for i, t in enumerate(sig)) or 'void'
            def akind(t):
                if 'S_memory_input' in t or 'S_buffer_input' in t or 'S_action_input' in t:
                    return 'in'
                if 'S_position' in t:
                    return 'pos'
                if t.replace(' ', '') in ('char*', 'constchar*'):
                    return 'str'
                return 'x'
            hook = 'VF_ON_THROW_%s_%s' % (tag, '_'.join(akind(t) for t in sig) or 'none')
            body = ['  vf_exc.nested_obj = 0;' if not nested else '  vf_exc.nested_obj = vf_exc.obj;',
                    '  vf_exc.pending = 1; vf_exc.type = %d; vf_exc.obj = ++vf_exc_counter;' % tid,
                    '#ifdef %s' % hook,
                    '  %s(%s);' % (hook, ', '.join('a%d' % i for i in range(len(sig)))),
                    '#endif']
            self.fn_proto[name] = 'void %s(%s);' % (name, ps)
            self.fn_text[name] = '/* throw %s */\nvoid %s(%s)\n{\n%s\n}' % (base, name, ps, '\n'.join(body))
            self.fn_info[name] = {'cname': name, 'pretty': 'throw ' + base, 'kind': 'throw', 'exc_type': tid, 'calls': []}
        if self.cur_calls is not None:
            self.cur_calls.add(name)
        self.emit_pre(cx, '%s(%s);' % (name, ', '.join(args)))
        self.emit_pre(cx, 'vf_exc.site = %d;' % self.site_id(cx))
        for l in self.exc_edge_throw(cx):
            self.emit_pre(cx, l)

    def exc_edge_throw(self, cx):
        if cx.nothrow_ctx():
            return ['__CPROVER_assert(0, "repo_terminate throw inside noexcept function %s");' % cx.cname,
                    '__CPROVER_assume(0);']
        if cx.try_stack:
            lbl, depth = cx.try_stack[-1]
            return ['{ %s goto %s; }' % (' '.join(self.during_unwind(self.unwind_lines(cx, depth))), lbl)]
        return ['{ %s %s }' % (' '.join(self.during_unwind(self.unwind_lines(cx, 0))), self.dummy_return(cx))]

    # ---------------------------------------------------------- statements
    def flush(self, cx, out, ind):
        for l in cx.pre:
            out.append(ind + l)
        cx.pre = []

    def flush_post(self, cx, out, ind):
        for t, rid in reversed(cx.post):
            for l in self.dtor_call(t, rid, cx):
                out.append(ind + l)
        cx.post = []

    def stmt(self, s, cx, out, ind):
        k = s.get('kind')
        if k == 'CompoundStmt':
            out.append(ind + '{')
            self.push_scope(cx)
            for c in s.get('inner', []):
                self.stmt(c, cx, out, ind + '  ')
            sc = cx.scopes[-1]
            if not self.ends_with_jump(s):
                for cexpr, rid in reversed(sc['dtors']):
                    for l in self.dtor_call(cexpr, rid, cx):
                        out.append(ind + '  ' + l)
            self.pop_scope(cx)
            out.append(ind + '}')
            return
        if k == 'NullStmt':
            out.append(ind + ';')
            return
        if k == 'DeclStmt':
            for d in s.get('inner', []):
                self.decl(d, cx, out, ind)
            return
        if k == 'ReturnStmt':
            self.ret(s, cx, out, ind)
            return
        if k == 'IfStmt':
            self.ifstmt(s, cx, out, ind)
            return
        if k == 'WhileStmt':
            self.whilestmt(s, cx, out, ind)
            return
        if k == 'ForStmt':
            self.forstmt(s, cx, out, ind)
            return
        if k == 'DoStmt':
            self.dostmt(s, cx, out, ind)
            return
        if k in ('BreakStmt', 'ContinueStmt'):
            # destroy locals of the scopes inside the loop
            idx = len(cx.scopes) - 1
            while idx >= 0 and cx.scopes[idx]['kind'] not in ('loop', 'switch' if k == 'BreakStmt' else 'loop'):
                idx -= 1
            if idx < 0:
                self.err(s, 'break/continue outside loop')
            for l in self.unwind_lines(cx, idx + 1):
                out.append(ind + l)
            sc = cx.scopes[idx]
            if k == 'ContinueStmt' and sc.get('cont_label'):
                sc['cont_used'] = True
                out.append(ind + 'goto %s;' % sc['cont_label'])
            else:
                out.append(ind + ('break;' if k == 'BreakStmt' else 'continue;'))
            return
        if k == 'CXXTryStmt':
            self.trystmt(s, cx, out, ind)
            return
        if k == 'SwitchStmt':
            self.switchstmt(s, cx, out, ind)
            return
        if k in ('CaseStmt', 'DefaultStmt'):
            if k == 'CaseStmt':
                v = self.rv(s['inner'][0], cx)
                out.append(ind + 'case %s:' % v)
                body = s['inner'][-1]
            else:
                out.append(ind + 'default:')
                body = s['inner'][0]
            self.stmt(body, cx, out, ind + '  ')
            return
        if k == 'AttributedStmt':
            self.stmt(s['inner'][-1], cx, out, ind)
            return
        if k == 'LabelStmt' or k == 'GotoStmt':
            self.err(s, 'goto/label')
        if k == 'CXXForRangeStmt':
            self.rangefor(s, cx, out, ind)
            return
        # expression statement
        if s.get('kind') in ('CallExpr', 'CXXMemberCallExpr', 'CXXOperatorCallExpr') and self.is_glvalue(s):
            v = self.call(s, cx)      # discarded reference result: do not dereference it
        else:
            v = self.rv(s, cx)
        self.flush(cx, out, ind)
        if v not in ('((void)0)', '((void)((void)0))'):
            out.append(ind + '(void)(%s);' % v if not v.startswith('((void)') else ind + v + ';')
        self.flush_post(cx, out, ind)

    def ends_with_jump(self, comp):
        inner = comp.get('inner', [])
        return bool(inner) and inner[-1].get('kind') in ('ReturnStmt', 'BreakStmt', 'ContinueStmt')

    def decl(self, d, cx, out, ind):
        k = d.get('kind')
        if k in SKIP_DECLS:
            return
        if k != 'VarDecl':
            self.err(d, 'local declaration')
        if d.get('storageClass') == 'static':
            self.err(d, 'static local')
        ts = self.decl_type_str(d)
        ti = self.tinfo(ts, d)
        nm = self.var_cname(cx, d)
        init = None
        for c in d.get('inner', []):
            if 'valueCategory' in c or c.get('kind') in ('InitListExpr', 'ExprWithCleanups', 'CXXConstructExpr', 'ParenListExpr'):
                init = c
        if self.is_ref(ts):
            l = self.lv(init, cx)
            self.flush(cx, out, ind)
            out.append(ind + '%s = &%s;' % (self.decl_of(ti, nm), l))
            # lifetime-extended temporaries: destructor at scope end
            for t, rid in cx.post:
                cx.scopes[-1]['dtors'].append((t, rid))
            cx.post = []
            return
        if ti['kind'] == 'rec' and not ti['suf']:
            out.append(ind + '%s;' % self.decl_of(ti, nm))
            if init is not None:
                self.into(init, nm, cx)
                self.flush(cx, out, ind)
            elif not self.rec_is_external(ti['rec']):
                self.default_init(self.ast.record_def(ti['rec']), nm, cx, False, d)
                self.flush(cx, out, ind)
            if not self.rec_trivial_dtor(ti['rec']) and (not self.rec_is_external(ti['rec']) or self.model_record(ti['rec'])):
                cx.scopes[-1]['dtors'].append((nm, ti['rec']))
            self.flush_post(cx, out, ind)
            return
        if init is None:
            out.append(ind + '%s;' % self.decl_of(ti, nm))
            return
        if any(x.startswith('[') for x in ti['suf']):
            il = init
            while il.get('kind') in ('ExprWithCleanups', 'ConstantExpr') and il.get('kind') != 'InitListExpr':
                il = il['inner'][0]
            if il.get('kind') != 'InitListExpr':
                self.err(d, 'array initialiser')
            items = [self.rv(x, cx) for x in il.get('inner', [])]
            self.flush(cx, out, ind)
            out.append(ind + '%s = { %s };' % (self.decl_of(ti, nm), ', '.join(items)))
            return
        v = self.rv(init, cx)
        self.flush(cx, out, ind)
        out.append(ind + '%s = %s;' % (self.decl_of(ti, nm), v))
        self.flush_post(cx, out, ind)

    def ret(self, s, cx, out, ind):
        inner = s.get('inner', [])
        if not inner:
            for l in self.unwind_lines(cx, 0):
                out.append(ind + l)
            out.append(ind + 'return;')
            return
        e = inner[0]
        if cx.sret:
            self.into(e, '(*_sret)', cx)
            self.flush(cx, out, ind)
            self.flush_post(cx, out, ind)
            for l in self.unwind_lines(cx, 0):
                out.append(ind + l)
            out.append(ind + 'return;')
            return
        if cx.ret_is_ref:
            v = '&%s' % self.lv(e, cx)
        elif cx.ret_ctype == 'void':
            v = self.rv(e, cx)
            self.flush(cx, out, ind)
            if not v.startswith('((void)0'):
                out.append(ind + '(void)(%s);' % v)
            self.flush_post(cx, out, ind)
            for l in self.unwind_lines(cx, 0):
                out.append(ind + l)
            out.append(ind + 'return;')
            return
        else:
            v = self.rv(e, cx)
        self.flush(cx, out, ind)
        un = self.unwind_lines(cx, 0)
        if not un and not cx.post:
            out.append(ind + 'return %s;' % v)
            return
        out.append(ind + '{ %s _ret = %s;' % (cx.ret_ctype, v))
        self.flush_post(cx, out, ind + '  ')
        for l in un:
            out.append(ind + '  ' + l)
        out.append(ind + '  return _ret; }')

    def cond_with_var(self, s, cx, out, ind):
        """handles `if (T x = init)` / `while(...)` condition variables; returns
        (inner list without the DeclStmt, opened_block)"""
        inner = list(s.get('inner', []))
        if s.get('hasVar') or (inner and inner[0].get('kind') == 'DeclStmt' and s.get('kind') in ('IfStmt',) and s.get('hasVar')):
            ds = inner.pop(0)
            return inner, ds
        if s.get('hasInit'):
            ds = inner.pop(0)
            return inner, ds
        return inner, None

    def ifstmt(self, s, cx, out, ind):
        inner, ds = self.cond_with_var(s, cx, out, ind)
        if s.get('isConstexpr'):
            cond = inner[0]
            v = self.const_value(cond)
            if v is None:
                self.err(s, 'if constexpr condition not constant')
            kids = inner[1:]
            live = kids[0] if v else (kids[1] if len(kids) > 1 else None)
            if live is not None and live.get('kind') != 'NullStmt':
                self.stmt(live, cx, out, ind)
            return
        opened = False
        if ds is not None:
            out.append(ind + '{')
            self.push_scope(cx)
            opened = True
            self.stmt(ds, cx, out, ind + '  ')
            ind2 = ind + '  '
        else:
            ind2 = ind
        cond = inner[0]
        v = self.rv(cond, cx)
        self.flush(cx, out, ind2)
        self.flush_post(cx, out, ind2)
        out.append(ind2 + 'if (%s)' % v)
        self.stmt_block(inner[1], cx, out, ind2)
        if len(inner) > 2:
            out.append(ind2 + 'else')
            self.stmt_block(inner[2], cx, out, ind2)
        if opened:
            sc = cx.scopes[-1]
            for cexpr, rid in reversed(sc['dtors']):
                for l in self.dtor_call(cexpr, rid, cx):
                    out.append(ind2 + l)
            self.pop_scope(cx)
            out.append(ind + '}')

    def stmt_block(self, s, cx, out, ind):
        if s.get('kind') == 'CompoundStmt':
            self.stmt(s, cx, out, ind)
        else:
            out.append(ind + '{')
            self.push_scope(cx)
            self.stmt(s, cx, out, ind + '  ')
            self.pop_scope(cx)
            out.append(ind + '}')

    def has_continue(self, n):
        k = n.get('kind')
        if k == 'ContinueStmt':
            return True
        if k in ('WhileStmt', 'ForStmt', 'DoStmt', 'CXXForRangeStmt', 'LambdaExpr'):
            return False
        return any(self.has_continue(c) for c in n.get('inner', []) if isinstance(c, dict))

    def loop_body(self, body, cx, out, ind):
        """loop body followed by the ghost-code marker of the current loop"""
        o = cx.loop_ord
        lbl = None
        if self.has_continue(body):
            # `continue` becomes a jump to the end of the body: one back edge per loop (loop contracts need that)
            for sc in reversed(cx.scopes):
                if sc['kind'] == 'loop':
                    if not sc.get('cont_label'):
                        sc['cont_label'] = cx.newlbl('cont')
                    lbl = sc['cont_label']
                    break
        out.append(ind + '{')
        self.push_scope(cx)
        if body.get('kind') == 'CompoundStmt':
            for c in body.get('inner', []):
                self.stmt(c, cx, out, ind + '  ')
            sc = cx.scopes[-1]
            if not self.ends_with_jump(body):
                for cexpr, rid in reversed(sc['dtors']):
                    for l in self.dtor_call(cexpr, rid, cx):
                        out.append(ind + '  ' + l)
        else:
            self.stmt(body, cx, out, ind + '  ')
        self.pop_scope(cx)
        if lbl:
            out.append(ind + '  %s:;' % lbl)
        out.append(ind + '  /*@LOOPEND %s %d@*/' % (cx.cname, o))
        out.append(ind + '}')

    def loop_marker(self, cx):
        cx.loop_ord += 1
        cx.loops.append(cx.loop_ord)
        return '/*@LOOP %s %d@*/' % (cx.cname, cx.loop_ord)

    def whilestmt(self, s, cx, out, ind):
        inner = list(s['inner'])
        if s.get('hasVar'):
            self.err(s, 'while with condition variable')
        cond, body = inner[0], inner[1]
        v, pre = self.sub_with_pre(cond, cx)
        self.push_scope(cx, 'loop')
        if not pre:
            out.append(ind + 'while (%s)' % v)
            out.append(ind + self.loop_marker(cx))
            self.loop_body(body, cx, out, ind)
        else:
            out.append(ind + 'while (1)')
            out.append(ind + self.loop_marker(cx))
            out.append(ind + '{')
            for l in pre:
                out.append(ind + '  ' + l)
            out.append(ind + '  if (!(%s)) break;' % v)
            self.loop_body(body, cx, out, ind + '  ')
            out.append(ind + '}')
        self.pop_scope(cx)

    def forstmt(self, s, cx, out, ind):
        # inner: init, condvar(null), cond, inc, body   (clang emits {} placeholders for absent parts)
        inner = s['inner']
        init, _cv, cond, inc, body = inner[0], inner[1], inner[2], inner[3], inner[4]
        out.append(ind + '{')
        self.push_scope(cx)
        i2 = ind + '  '
        if init and init.get('kind'):
            self.stmt(init, cx, out, i2)
        if cond and cond.get('kind'):
            v, pre = self.sub_with_pre(cond, cx)
        else:
            v, pre = '1', []
        if inc and inc.get('kind'):
            iv, ipre = self.sub_with_pre(inc, cx)
        else:
            iv, ipre = None, []
        self.push_scope(cx, 'loop')
        if not pre and not ipre:
            out.append(i2 + 'for (; %s; %s)' % (v, iv if iv else ''))
            out.append(i2 + self.loop_marker(cx))
            self.loop_body(body, cx, out, i2)
        else:
            lbl = cx.newlbl('cont')
            cx.scopes[-1]['cont_label'] = lbl
            out.append(i2 + 'while (1)')
            out.append(i2 + self.loop_marker(cx))
            out.append(i2 + '{')
            for l in pre:
                out.append(i2 + '  ' + l)
            out.append(i2 + '  if (!(%s)) break;' % v)
            o = cx.loop_ord
            self.stmt_block(body, cx, out, i2 + '  ')
            out.append(i2 + '  /*@LOOPEND %s %d@*/' % (cx.cname, o))
            out.append(i2 + '  %s:;' % lbl)
            for l in ipre:
                out.append(i2 + '  ' + l)
            if iv:
                out.append(i2 + '  (void)(%s);' % iv)
            out.append(i2 + '}')
        self.pop_scope(cx)
        self.pop_scope(cx)
        out.append(ind + '}')

    def rangefor(self, s, cx, out, ind):
        init, rng, beg, end, cond, inc, var, body = s['inner']
        out.append(ind + '{')
        self.push_scope(cx)
        i2 = ind + '  '
        for d in (init, rng, beg, end):
            if d and d.get('kind'):
                self.stmt(d, cx, out, i2)
        v, pre = self.sub_with_pre(cond, cx)
        iv, ipre = self.sub_with_pre(inc, cx)
        if pre or ipre:
            self.err(s, 'range-for with throwing iterator operations')
        self.push_scope(cx, 'loop')
        out.append(i2 + 'for (; %s; %s)' % (v, iv))
        out.append(i2 + self.loop_marker(cx))
        o = cx.loop_ord
        out.append(i2 + '{')
        self.push_scope(cx)
        self.stmt(var, cx, out, i2 + '  ')
        if body.get('kind') == 'CompoundStmt':
            for c in body.get('inner', []):
                self.stmt(c, cx, out, i2 + '  ')
        else:
            self.stmt(body, cx, out, i2 + '  ')
        sc = cx.scopes[-1]
        for cexpr, rid in reversed(sc['dtors']):
            for l in self.dtor_call(cexpr, rid, cx):
                out.append(i2 + '  ' + l)
        self.pop_scope(cx)
        out.append(i2 + '  /*@LOOPEND %s %d@*/' % (cx.cname, o))
        out.append(i2 + '}')
        self.pop_scope(cx)
        self.pop_scope(cx)
        out.append(ind + '}')

    def dostmt(self, s, cx, out, ind):
        body, cond = s['inner'][0], s['inner'][1]
        if self.const_value(cond) == 0:
            # do { ... } while(false): not a loop
            self.push_scope(cx, 'loop')
            out.append(ind + 'do')
            self.stmt_block(body, cx, out, ind)
            out.append(ind + 'while (0);')
            self.pop_scope(cx)
            return
        v, pre = self.sub_with_pre(cond, cx)
        self.push_scope(cx, 'loop')
        if not pre:
            out.append(ind + 'do')
            out.append(ind + self.loop_marker(cx))
            self.loop_body(body, cx, out, ind)
            out.append(ind + 'while (%s);' % v)
        else:
            lbl = cx.newlbl('cont')
            cx.scopes[-1]['cont_label'] = lbl
            out.append(ind + 'while (1)')
            out.append(ind + self.loop_marker(cx))
            out.append(ind + '{')
            o = cx.loop_ord
            self.stmt_block(body, cx, out, ind + '  ')
            out.append(ind + '  /*@LOOPEND %s %d@*/' % (cx.cname, o))
            out.append(ind + '  %s:;' % lbl)
            for l in pre:
                out.append(ind + '  ' + l)
            out.append(ind + '  if (!(%s)) break;' % v)
            out.append(ind + '}')
        self.pop_scope(cx)

    def switchstmt(self, s, cx, out, ind):
        inner = list(s['inner'])
        opened = False
        if s.get('hasInit') or s.get('hasVar'):
            # switch( const auto c = expr ): declaration in an enclosing block
            out.append(ind + '{')
            self.push_scope(cx)
            opened = True
            while inner and inner[0].get('kind') == 'DeclStmt':
                self.stmt(inner.pop(0), cx, out, ind + '  ')
        v = self.rv(inner[0], cx)
        self.flush(cx, out, ind)
        out.append(ind + 'switch (%s)' % v)
        self.push_scope(cx, 'switch')
        self.stmt_block(inner[1], cx, out, ind)
        self.pop_scope(cx)
        if opened:
            self.pop_scope(cx)
            out.append(ind + '}')

    def trystmt(self, s, cx, out, ind):
        inner = s['inner']
        body = inner[0]
        handlers = inner[1:]
        lcatch = cx.newlbl('catch')
        lend = cx.newlbl('tryend')
        out.append(ind + '{ /* try */')
        cx.try_stack.append((lcatch, len(cx.scopes)))
        self.stmt(body, cx, out, ind + '  ')
        cx.try_stack.pop()
        out.append(ind + '  goto %s;' % lend)
        out.append(ind + '  %s:;' % lcatch)
        for h in handlers:
            hin = [c for c in h.get('inner', []) if c.get('kind')]
            var = None
            hbody = hin[-1]
            if len(hin) == 2 and hin[0].get('kind') == 'VarDecl':
                var = hin[0]
            if var is None:
                cond = '1'
            else:
                base, _ = parse_type(self.decl_type_str(var))
                cond = self.catch_cond(base)
            out.append(ind + '  if (%s) {' % cond)
            out.append(ind + '    vf_exc.pending = 0; vf_exc.handled += 1;')
            if var is not None and var.get('isUsed'):
                self.err(var, 'use of the caught exception object')
            self.stmt(hbody, cx, out, ind + '    ')
            out.append(ind + '    goto %s;' % lend)
            out.append(ind + '  }')
        # no handler matched: keep propagating
        for l in self.exc_edge_throw(cx):
            out.append(ind + '  ' + l)
        out.append(ind + '  %s:;' % lend)
        out.append(ind + '}')

    def catch_cond(self, base):
        """handler for type `base` matches the thrown type id"""
        tid = self.exc_type_id(base)
        self.catch_types = getattr(self, 'catch_types', {})
        self.catch_types[base] = tid
        return 'vf_isa(vf_exc.type, %d)' % tid

    # ------------------------------------------------------------ functions
    def lower_function(self, d):
        from cxx2c import Ctx
        cname = self.fn_cname(d)
        if cname in self.fn_text or cname in self.fn_proto and self.ast.body(d) is None:
            return
        cx = Ctx(d, cname)
        cx.loops = []
        saved_calls = self.cur_calls
        self.cur_calls = set()
        try:
            self._lower_function(d, cname, cx)
        finally:
            if cname in self.fn_info:
                self.fn_info[cname]['calls'] = sorted(self.cur_calls - {cname})
            self.cur_calls = saved_calls

    def _lower_function(self, d, cname, cx):
        cx.ret_is_ref = False
        kind = d.get('kind')
        rec = self.ast.enclosing_record(d) if kind != 'FunctionDecl' else None
        params = []
        is_method = kind in ('CXXMethodDecl', 'CXXConstructorDecl', 'CXXDestructorDecl', 'CXXConversionDecl') \
            and d.get('storageClass') != 'static'
        if is_method:
            if rec is None:
                self.err(d, 'method without record')
            params.append('struct %s* self' % self.rec_tag(rec['id']))
            cx.used_names.add('self')
            if self.is_lambda(rec):
                self.setup_captures(rec, cx)
        # return type
        if kind in ('CXXConstructorDecl', 'CXXDestructorDecl'):
            rts = 'void'
        else:
            rts = self.fn_rettype(d)
        rti = self.tinfo(rts, d)
        if rti['kind'] == 'rec' and not rti['suf'] and not self.rec_by_value(rti['rec']):
            cx.sret = True
            params.append('%s* _sret' % rti['c'])
            cx.ret_ctype = 'void'
        else:
            cx.ret_ctype = self.decl_of(rti)
            cx.ret_is_ref = bool(rti['suf']) and rti['suf'][-1] in ('&', '&&')
        pinfo = []
        for p in self.ast.params(d):
            pts = self.decl_type_str(p)
            pti = self.tinfo(pts, p)
            nm = self.var_cname(cx, p)
            if pti['kind'] == 'rec' and not pti['suf'] and not self.rec_by_value(pti['rec']):
                # by-value parameter of a non-trivial class: received by pointer
                params.append('%s* %s' % (pti['c'], nm))
                cx.captured = getattr(cx, 'captured', {})
                cx.captured[p['id']] = '(*%s)' % nm
            else:
                params.append(self.decl_of(pti, nm))
            pinfo.append({'name': nm, 'cxx_type': pts})
        if d.get('variadic'):
            params.append('...')
        sig = '%s %s(%s)' % (cx.ret_ctype, cname, ', '.join(params) if params else 'void')
        pretty = self.pretty_name(d)
        info = {'cname': cname, 'pretty': pretty, 'mangled': d.get('mangledName'), 'params': pinfo,
                'loc': self.ast.loc(d), 'qual': self.ast.qualname(d), 'sig': sig,
                'is_method': is_method, 'sret': cx.sret, 'ret': cx.ret_ctype,
                'rec': self.rec_pretty(rec['id']) if rec is not None else None,
                'nothrow_decl': self.fn_nothrow_decl(d)}
        self.fn_info[cname] = info
        body = self.ast.body(d)
        lifted = self.fn_is_lifted(d)
        self.fn_proto[cname] = sig + ';'
        if not lifted or (body is None and not (kind in ('CXXConstructorDecl', 'CXXDestructorDecl') and d.get('explicitlyDefaulted'))):
            info['kind'] = 'extern'
            info['may_throw'] = self.fn_may_throw(d)
            self.fn_text[cname] = '/* extern: %s */\n%s\n/*@CONTRACT %s@*/;' % (pretty, sig, cname)
            return
        info['kind'] = 'lifted'
        info['may_throw'] = self.fn_may_throw(d)
        cx.nothrow = self.fn_nothrow_decl(d)
        out = []
        self.push_scope(cx, 'fn')
        if kind == 'CXXConstructorDecl':
            self.ctor_inits(d, rec, cx, out)
        if body is not None:
            self.stmt(body, cx, out, '')
        if kind == 'CXXDestructorDecl':
            # members and bases are destroyed after the body
            for f in reversed(self.ast.fields(rec)):
                fti = self.tinfo(self.decl_type_str(f), f)
                if fti['kind'] == 'rec' and not fti['suf']:
                    for l in self.dtor_call('self->%s' % f['name'], fti['rec'], cx):
                        out.append('  ' + l)
        if body is not None and cx.ret_ctype != 'void' and not cx.sret and kind not in ('CXXConstructorDecl', 'CXXDestructorDecl'):
            if not self.ends_in_return(body):
                out.append('  __CPROVER_assert(0, "repo_assert control reaches the end of non-void function %s");' % cname)
                out.append('  ' + self.dummy_return(cx))
        self.pop_scope(cx)
        info['loops'] = cx.loops
        txt = '/* %s\n   %s */\n%s\n/*@CONTRACT %s@*/\n{\n%s\n}' % (pretty, info['loc'], sig, cname, '\n'.join('  ' + l for l in out))
        self.fn_text[cname] = txt

    def ends_in_return(self, s):
        if s is None:
            return False
        k = s.get('kind')
        if k == 'ReturnStmt':
            return True
        if k == 'CompoundStmt':
            inner = [c for c in s.get('inner', []) if c.get('kind')]
            return bool(inner) and self.ends_in_return(inner[-1])
        if k == 'IfStmt':
            inner = list(s.get('inner', []))
            if s.get('hasVar') or s.get('hasInit'):
                inner = inner[1:]
            if s.get('isConstexpr'):
                v = self.const_value(inner[0])
                kids = inner[1:]
                live = kids[0] if v else (kids[1] if len(kids) > 1 else None)
                return self.ends_in_return(live)
            return len(inner) > 2 and self.ends_in_return(inner[1]) and self.ends_in_return(inner[2])
        if k == 'CXXTryStmt':
            return all(self.ends_in_return(c if c.get('kind') == 'CompoundStmt' else [x for x in c.get('inner', []) if x.get('kind')][-1]) for c in s.get('inner', []))
        if k == 'AttributedStmt':
            return self.ends_in_return(s['inner'][-1])
        return False

    def pretty_name(self, d):
        m = d.get('mangledName')
        if m and m in self.demangled:
            return self.demangled[m]
        return self.ast.qualname(d)

    def setup_captures(self, rec, cx):
        lam = self.ast.parent.get(rec['id'])
        if lam is None or lam.get('kind') != 'LambdaExpr':
            raise Unsupported('closure class without LambdaExpr parent')
        fields = self.ast.fields(rec)
        inits = [c for c in lam.get('inner', [])[1:] if c.get('kind') not in ('CompoundStmt',)]
        cx.captured = {}
        for f, i in zip(fields, inits):
            x = unwrap(i, ('ParenExpr', 'ImplicitCastExpr', 'ExprWithCleanups'))
            fname = self.field_cname(f)
            if x.get('kind') == 'DeclRefExpr':
                did = x['referencedDecl']['id']
                if self.is_ref(self.decl_type_str(f)):
                    cx.captured[did] = '(*self->%s)' % fname
                else:
                    cx.captured[did] = 'self->%s' % fname
            else:
                raise Unsupported('lambda capture initialiser %s' % x.get('kind'))

    def lambda_into(self, e, target, cx):
        rec = e['inner'][0]
        self.need_record(rec['id'])
        fields = self.ast.fields(rec)
        inits = [c for c in e.get('inner', [])[1:] if c.get('kind') not in ('CompoundStmt',)]
        for f, i in zip(fields, inits):
            fname = self.field_cname(f)
            if self.is_ref(self.decl_type_str(f)):
                self.emit_pre(cx, '%s.%s = &%s;' % (target, fname, self.lv(i, cx)))
            else:
                self.emit_pre(cx, '%s.%s = %s;' % (target, fname, self.rv(i, cx)))

    def stdinit_into(self, e, target, cx):
        """std::initializer_list<T>{a,b,...}: backing array + (pointer, length); libstdc++ field names"""
        arr = unwrap(e['inner'][0], ('MaterializeTemporaryExpr', 'ExprWithCleanups', 'ImplicitCastExpr'))
        if arr.get('kind') != 'InitListExpr':
            self.err(e, 'initializer_list backing array')
        ati = self.einfo(arr)
        elem = dict(ati); elem['suf'] = [x for x in ati['suf'] if not x.startswith('[')]
        items = [self.rv(x, cx) for x in arr.get('inner', [])]
        t = cx.newtmp('il')
        self.emit_pre(cx, '%s %s[%d] = { %s };' % (self.decl_of(elem), t, max(1, len(items)), ', '.join(items) or '0'))
        ti = self.einfo(e)
        rec = self.ast.record_def(ti['rec'])
        self.need_record(ti['rec'])
        names = [self.field_cname(f) for f in self.ast.fields(rec)]
        if names != ['_M_array', '_M_len']:
            self.err(e, 'unexpected std::initializer_list layout %s' % names)
        self.emit_pre(cx, '%s._M_array = %s; %s._M_len = %d;' % (target, t, target, len(items)))

    def ctor_inits(self, d, rec, cx, out):
        for ci in d.get('inner', []):
            if ci.get('kind') != 'CXXCtorInitializer':
                continue
            x = ci['inner'][0] if ci.get('inner') else None
            if 'anyInit' in ci:
                f = self.ast.byid[ci['anyInit']['id']]
                if x is not None and x.get('kind') == 'CXXDefaultInitExpr':
                    init = [c for c in f.get('inner', []) if 'valueCategory' in c or c.get('kind') == 'InitListExpr']
                    if not init:
                        self.err(ci, 'default member initializer not found')
                    x = init[0]
                self.init_field(f, x, 'self->%s' % self.field_cname(f), cx)
            elif 'baseInit' in ci:
                bts = self.ast.tstr(ci['baseInit'])
                r = self.resolve_base(strip_cv(bts), rec)
                path = self.base_index(rec, self.ast.record_def(r[1])['id'])
                if path is None:
                    self.err(ci, 'base initializer: base not found')
                if x is not None and x.get('kind') == 'CXXInheritedCtorInitExpr':
                    # implicit inheriting constructor (using Base::Base): forwards its own parameters to the base
                    # constructor with the same parameter types
                    brec = self.ast.record_def(r[1])
                    want = self.strip_ws(re.sub(r'\)\s*noexcept.*$', ')', d['type']['qualType']))
                    cands = [c for c in self.ast.methods(brec, ('CXXConstructorDecl',))
                             if self.strip_ws(re.sub(r'\)\s*noexcept.*$', ')', c['type']['qualType'])) == want and not c.get('isImplicit')]
                    if len(cands) != 1:
                        self.err(ci, 'inherited constructor: %d base constructors match %s' % (len(cands), d['type']['qualType']))
                    bctor = cands[0]
                    self.need_fn(bctor) if hasattr(self, 'need_fn') else None
                    args = ['&self->%s' % '.'.join(path)] + [self.var_cname(cx, pv) for pv in self.ast.params(d)]
                    self.emit_pre(cx, '%s(%s);' % (self.fn_cname(bctor), ', '.join(args)))
                    self.exc_check_if(bctor, cx)
                else:
                    self.into(x, 'self->%s' % '.'.join(path), cx)
            elif 'delegatingInit' in ci or ci.get('delegating'):
                self.into(x, '(*self)', cx)
            else:
                self.err(ci, 'unknown ctor initializer')
            self.flush(cx, out, '  ')
            self.flush_post(cx, out, '  ')
