"""expression lowering (mixin for Lowerer)"""
import re
from cxxast import Unsupported, RECORD_KINDS, FUNC_KINDS, parse_type, strip_cv, sanitize

PASS_THROUGH_STD = {'std::move', 'std::forward', 'std::as_const', 'std::addressof_', 'std::launder'}
ASSIGN_OPS = {'=', '+=', '-=', '*=', '/=', '%=', '<<=', '>>=', '&=', '|=', '^='}


def unwrap(e, kinds=('ParenExpr', 'ExprWithCleanups', 'CXXBindTemporaryExpr', 'ConstantExpr',
                     'SubstNonTypeTemplateParmExpr')):
    while e.get('kind') in kinds and e.get('inner'):
        if e.get('kind') == 'ConstantExpr' and 'value' in e:
            break
        e = e['inner'][-1] if e.get('kind') == 'SubstNonTypeTemplateParmExpr' else e['inner'][0]
    return e


class ExprMixin:
    # ------------------------------------------------------------ utilities
    def etype(self, e):
        return self.ast.tstr(e['type'])

    def einfo(self, e):
        return self.tinfo(self.etype(e), e)

    def is_glvalue(self, e):
        return e.get('valueCategory') in ('lvalue', 'xvalue')

    def is_class(self, e):
        try:
            ti = self.einfo(e)
        except Unsupported:
            return False
        return ti['kind'] == 'rec' and not ti['suf']

    def emit_pre(self, cx, line):
        cx.pre.append(line)

    def var_cname(self, cx, d):
        did = d['id']
        if did in cx.varnames:
            return cx.varnames[did]
        nm = d.get('name') or ('_p%d' % len(cx.varnames))
        nm = sanitize(nm)
        if nm in ('this', 'main', 'int', 'char', 'auto', 'register', 'restrict', 'self'):
            nm = nm + '_'
        base = nm; k = 1
        while nm in cx.used_names:
            k += 1; nm = '%s_%d' % (base, k)
        cx.used_names.add(nm)
        cx.varnames[did] = nm
        return nm

    def decl_type_str(self, d):
        return self.ast.tstr(d['type'])

    # ------------------------------------------------------------ lvalues
    def lv(self, e, cx):
        k = e.get('kind')
        if k in ('ParenExpr',):
            return '(%s)' % self.lv(e['inner'][0], cx)
        if k in ('ExprWithCleanups', 'CXXBindTemporaryExpr'):
            return self.lv(e['inner'][0], cx)
        if k == 'SubstNonTypeTemplateParmExpr':
            return self.lv(e['inner'][-1], cx)
        if k == 'ConstantExpr':
            return self.lv(e['inner'][0], cx)
        if k == 'DeclRefExpr':
            return self.declref(e, cx, want_lv=True)
        if k == 'MemberExpr':
            return self.member(e, cx)
        if k == 'CXXThisExpr':
            return '(*self)'
        if k == 'UnaryOperator':
            op = e['opcode']
            if op == '*':
                return '(*%s)' % self.rv(e['inner'][0], cx)
            if op in ('++', '--') and not e.get('isPostfix'):
                return '(*(%s))' % self.incdec_ptr(e, cx)
            if op == '__extension__':
                return self.lv(e['inner'][0], cx)
            if op in ('__real', '__imag'):
                self.err(e, 'complex')
        if k == 'ArraySubscriptExpr':
            return '%s[%s]' % (self.rv(e['inner'][0], cx), self.rv(e['inner'][1], cx))
        if k in ('ImplicitCastExpr', 'CStyleCastExpr', 'CXXStaticCastExpr', 'CXXConstCastExpr',
                 'CXXFunctionalCastExpr', 'CXXReinterpretCastExpr'):
            ck = e.get('castKind')
            sub = e['inner'][0]
            if ck == 'NoOp' or ck == 'LValueToRValue':
                return self.lv(sub, cx)
            if ck in ('DerivedToBase', 'UncheckedDerivedToBase'):
                return self.to_base_lv(e, sub, cx)
            if ck == 'BaseToDerived':
                return self.to_derived_lv(e, sub, cx)
            if ck == 'LValueBitCast':
                return '(*(%s*)&%s)' % (self.ctype(self.etype(e), e), self.lv(sub, cx))
            if ck == 'ArrayToPointerDecay':
                return self.lv(sub, cx)
            self.err(e, 'lvalue cast kind %s' % ck)
        if k in ('CallExpr', 'CXXMemberCallExpr', 'CXXOperatorCallExpr'):
            r = self.call(e, cx)
            if self.is_glvalue(e):
                return '(*%s)' % r
            # class prvalue used as an object: put in a temporary
            return r
        if k == 'MaterializeTemporaryExpr':
            return self.materialize(e, cx)
        if k == 'BinaryOperator':
            op = e['opcode']
            if op in ASSIGN_OPS:
                p = self.assign_ptr(e, cx)
                return '(*%s)' % p
            if op == ',':
                l = self.rv(e['inner'][0], cx)
                self.emit_pre(cx, '(void)(%s);' % l)
                return self.lv(e['inner'][1], cx)
        if k == 'CompoundAssignOperator':
            p = self.assign_ptr(e, cx)
            return '(*%s)' % p
        if k == 'StringLiteral':
            return self.string_lit(e)
        if k == 'ConditionalOperator':
            c = self.rv(e['inner'][0], cx)
            a = self.lv(e['inner'][1], cx)
            b = self.lv(e['inner'][2], cx)
            return '(*((%s) ? &%s : &%s))' % (c, a, b)
        if k in ('CXXConstructExpr', 'CXXTemporaryObjectExpr', 'InitListExpr', 'CXXFunctionalCastExpr'):
            return self.class_temp(e, cx)
        if k == 'PredefinedExpr':
            return '"fn"'
        self.err(e, 'unsupported lvalue expression')

    def assign_ptr(self, e, cx):
        """assignment used as an lvalue: hoist it, return pointer expr"""
        t = cx.newtmp('ap')
        l = self.lv(e['inner'][0], cx)
        ct = self.ctype(self.etype(e['inner'][0]), e)
        self.emit_pre(cx, '%s* %s = &%s;' % (ct, t, l))
        r = self.rv(e['inner'][1], cx)
        self.emit_pre(cx, '(*%s) %s %s;' % (t, e['opcode'], r))
        return t

    def incdec_ptr(self, e, cx):
        t = cx.newtmp('ip')
        l = self.lv(e['inner'][0], cx)
        ct = self.ctype(self.etype(e['inner'][0]), e)
        self.emit_pre(cx, '%s* %s = &%s;' % (ct, t, l))
        self.emit_pre(cx, '%s(*%s);' % (e['opcode'], t))
        return t

    def to_base_lv(self, e, sub, cx):
        # sub is a glvalue of derived class (or pointer when e is a pointer cast)
        sti = self.einfo(sub)
        tti = self.einfo(e)
        path = self.base_index(self.ast.record_def(sti['rec']), self.ast.record_def(tti['rec'])['id'])
        if path is None:
            self.err(e, 'base path not found')
        return '%s.%s' % (self.lv(sub, cx), '.'.join(path))

    def to_derived_lv(self, e, sub, cx):
        sti = self.einfo(sub)
        tti = self.einfo(e)
        path = self.base_index(self.ast.record_def(tti['rec']), self.ast.record_def(sti['rec'])['id'])
        if path is None:
            self.err(e, 'derived path not found')
        # all bases are first members: same address (offset 0 only)
        if any(p != '_b0' for p in path):
            self.err(e, 'BaseToDerived through non-first base')
        return '(*(%s*)&%s)' % (self.decl_of({**tti, 'suf': []}), self.lv(sub, cx))

    def string_lit(self, e):
        return e['value']

    def declref(self, e, cx, want_lv):
        rd = e['referencedDecl']
        k = rd['kind']
        did = rd['id']
        if k in ('ParmVarDecl', 'VarDecl', 'VarTemplateSpecializationDecl'):
            d = self.ast.byid.get(did, rd)
            p = self.ast.sem_parent(d) if did in self.ast.byid else None
            is_local = k == 'ParmVarDecl' or (p is not None and p.get('kind') in ('DeclStmt',) ) or did in cx.varnames
            if is_local and not (d.get('storageClass') == 'static' and k != 'ParmVarDecl'):
                nm = self.var_cname(cx, d)
                if did in getattr(cx, 'captured', {}):
                    return cx.captured[did]
                if self.is_ref(self.decl_type_str(d)):
                    return '(*%s)' % nm
                return nm
            if did in getattr(cx, 'captured', {}):
                return cx.captured[did]
            return self.global_ref(d, cx, e)
        if k == 'EnumConstantDecl':
            d = self.ast.byid[did]
            return '((%s)%d)' % (self.ctype(self.etype(e), e), self.enum_value(d))
        if k in FUNC_KINDS:
            return self.fn_cname(self.ast.byid[did])
        if k == 'NonTypeTemplateParmDecl':
            self.err(e, 'unsubstituted template parameter')
        if k == 'BindingDecl':
            self.err(e, 'structured binding')
        self.err(e, 'DeclRefExpr to %s' % k)

    def global_ref(self, d, cx, e):
        """namespace-scope / static-member variable"""
        did = d['id']
        if did in self.global_names:
            return self.global_names[did]
        init = None
        for c in d.get('inner', []):
            if c.get('kind') not in ('TemplateArgument',) and 'valueCategory' in c or c.get('kind') in ('InitListExpr', 'ExprWithCleanups', 'CXXConstructExpr'):
                init = c
        if init is None:
            # definition may be elsewhere (static member declared in class, defined inline)
            self.err(e, 'global %s has no initializer' % d.get('name'))
        v = self.const_value(init)
        ts = self.decl_type_str(d)
        ti = self.tinfo(ts, d)
        if v is not None and ti['kind'] in ('c', 'enum') and not ti['suf']:
            s = '((%s)%s)' % (ti['c'], self.int_lit(v, ti['c']))
            self.global_names[did] = s
            return s
        # general constant: emit a C global with lowered initializer
        from cxxast import short_hash
        nm = 'g_%s_%s' % (sanitize(self.ast.qualname(d))[-40:], short_hash(self.ast.qualname(d) + self.ast.loc(d) + str(d.get('mangledName')), 6))
        self.global_names[did] = nm
        gcx = type(cx)(d, nm)
        iv = self.rv(init, gcx) if not self.is_class(init) else None
        if gcx.pre or iv is None:
            self.err(e, 'global %s initializer is not a C constant expression' % d.get('name'))
        self.globals_text[did] = 'static %s = %s;' % (self.decl_of(ti, nm), iv)
        return nm

    def int_lit(self, v, ctype):
        if ctype in ('unsigned long', 'unsigned long long'):
            return '%dUL' % v
        if ctype in ('long', 'long long'):
            if v == -(1 << 63):
                return '(-9223372036854775807L-1)'
            return '%dL' % v
        if ctype == 'unsigned int':
            return '%dU' % v
        if ctype == 'int' and v == -(1 << 31):
            return '(-2147483647-1)'
        return '%d' % v

    def member(self, e, cx):
        mid = e.get('referencedMemberDecl')
        md = self.ast.byid.get(mid)
        if md is None:
            self.err(e, 'member decl not found')
        mk = md.get('kind')
        base = e['inner'][0]
        if mk in ('VarDecl',):
            return self.global_ref(md, cx, e)
        if mk == 'EnumConstantDecl':
            return '%d' % self.enum_value(md)
        if mk != 'FieldDecl':
            self.err(e, 'member of kind %s used as value' % mk)
        fname = self.field_cname(md)
        if e.get('isArrow'):
            b = '%s->%s' % (self.rv(base, cx), fname)
        else:
            b = '%s.%s' % (self.lv(base, cx), fname)
        if self.is_ref(self.decl_type_str(md)):
            return '(*%s)' % b
        return b

    def materialize(self, e, cx):
        sub = e['inner'][0]
        ti = self.einfo(e)
        t = cx.newtmp('m')
        if ti['kind'] == 'rec' and not ti['suf']:
            self.emit_pre(cx, '%s;' % self.decl_of(ti, t))
            self.into(sub, t, cx)
            self.reg_temp_dtor(t, ti['rec'], cx, e)
        else:
            v = self.rv(sub, cx)
            self.emit_pre(cx, '%s = %s;' % (self.decl_of(ti, t), v))
        return t

    def class_temp(self, e, cx):
        ti = self.einfo(e)
        t = cx.newtmp('c')
        self.emit_pre(cx, '%s;' % self.decl_of(ti, t))
        self.into(e, t, cx)
        self.reg_temp_dtor(t, ti['rec'], cx, e)
        return t

    def reg_temp_dtor(self, t, rid, cx, e):
        if rid is None or self.rec_trivial_dtor(rid):
            return
        if self.rec_is_external(rid):
            return   # opaque library object: destructor has no modelled effect
        cx.post.append((t, rid))

    # ------------------------------------------------------------ rvalues
    def rv(self, e, cx):
        k = e.get('kind')
        if k == 'ConstantExpr':
            if 'value' in e:
                v = self.parse_const(e['value'])
                ti = self.einfo(e)
                if v is not None and ti['kind'] in ('c', 'enum') and not ti['suf']:
                    return '((%s)%s)' % (ti['c'], self.int_lit(v, ti['c']))
            return self.rv(e['inner'][0], cx)
        if k == 'ParenExpr':
            return '(%s)' % self.rv(e['inner'][0], cx)
        if k in ('ExprWithCleanups', 'CXXBindTemporaryExpr'):
            return self.rv(e['inner'][0], cx)
        if k == 'SubstNonTypeTemplateParmExpr':
            return self.rv(e['inner'][-1], cx)
        if k == 'IntegerLiteral':
            ti = self.einfo(e)
            return self.int_lit(int(e['value']), ti['c'])
        if k == 'CharacterLiteral':
            ti = self.einfo(e)
            return '((%s)%d)' % (ti['c'], int(e['value']))
        if k == 'CXXBoolLiteralExpr':
            return '1' if e['value'] else '0'
        if k in ('CXXNullPtrLiteralExpr', 'GNUNullExpr'):
            return '((void*)0)'
        if k == 'StringLiteral':
            return e['value']
        if k == 'FloatingLiteral':
            return e['value']
        if k == 'CXXThisExpr':
            return 'self'
        if k in ('DeclRefExpr', 'MemberExpr', 'ArraySubscriptExpr'):
            return self.lv(e, cx)
        if k in ('ImplicitCastExpr', 'CStyleCastExpr', 'CXXStaticCastExpr', 'CXXConstCastExpr',
                 'CXXFunctionalCastExpr', 'CXXReinterpretCastExpr'):
            return self.cast(e, cx)
        if k == 'UnaryOperator':
            return self.unary(e, cx)
        if k == 'BinaryOperator':
            return self.binary(e, cx)
        if k == 'CompoundAssignOperator':
            l = self.lv(e['inner'][0], cx)
            r = self.rv(e['inner'][1], cx)
            return '(%s %s %s)' % (l, e['opcode'], r)
        if k == 'ConditionalOperator':
            return self.conditional(e, cx)
        if k in ('CallExpr', 'CXXMemberCallExpr', 'CXXOperatorCallExpr'):
            r = self.call(e, cx)
            if self.is_glvalue(e):
                return '(*%s)' % r
            return r
        if k in ('CXXConstructExpr', 'CXXTemporaryObjectExpr'):
            return self.class_temp(e, cx)
        if k == 'InitListExpr':
            return self.initlist_value(e, cx)
        if k == 'MaterializeTemporaryExpr':
            return self.materialize(e, cx)
        if k == 'CXXDefaultArgExpr':
            self.err(e, 'default argument outside a call')
        if k == 'UnaryExprOrTypeTraitExpr':
            v = self.const_value(e)
            if e.get('name') == 'sizeof':
                at = e.get('argType')
                if at:
                    return 'sizeof(%s)' % self.ctype(self.ast.tstr(at), e)
                return 'sizeof(%s)' % self.lv(e['inner'][0], cx)
            self.err(e, 'type trait expr')
        if k == 'SizeOfPackExpr':
            return '((unsigned long)%dUL)' % self.pack_size(e)
        if k in ('CXXScalarValueInitExpr', 'ImplicitValueInitExpr'):
            ti = self.einfo(e)
            if ti['kind'] == 'rec' and not ti['suf']:
                return '((%s){0})' % self.decl_of(ti)
            return '((%s)0)' % self.decl_of(ti)
        if k == 'CXXNoexceptExpr' or k == 'TypeTraitExpr':
            v = e.get('value')
            if v is not None:
                return '1' if v else '0'
            self.err(e, 'noexcept/type-trait without value')
        if k == 'CXXThrowExpr':
            self.throw(e, cx)
            return '((void)0)'
        if k == 'LambdaExpr':
            return self.class_temp(e, cx)
        if k == 'PredefinedExpr':
            return '"fn"'
        if k == 'CXXStdInitializerListExpr':
            return self.class_temp(e, cx)
        self.err(e, 'unsupported expression')

    def cast(self, e, cx):
        ck = e.get('castKind')
        sub = e['inner'][0]
        if ck == 'LValueToRValue':
            u = unwrap(sub, ('ParenExpr',))
            if (u.get('kind') == 'BinaryOperator' and u.get('opcode') in ASSIGN_OPS and not self.is_class(u)) \
                    or u.get('kind') == 'CompoundAssignOperator' \
                    or (u.get('kind') == 'UnaryOperator' and u.get('opcode') in ('++', '--') and not u.get('isPostfix')):
                return self.rv(u, cx)     # in C the assignment expression is already the assigned value
            return self.lv(sub, cx)
        if ck == 'NoOp':
            if self.is_glvalue(e):
                return self.lv(sub, cx)
            return self.rv(sub, cx)
        if ck in ('FunctionToPointerDecay', 'BuiltinFnToFnPtr'):
            return self.rv(sub, cx)
        if ck == 'ArrayToPointerDecay':
            s = unwrap(sub)
            if s.get('kind') == 'StringLiteral':
                return s['value']
            return '(%s)' % self.lv(sub, cx)
        if ck in ('IntegralCast', 'BitCast', 'IntegralToPointer', 'PointerToIntegral', 'IntegralToFloating',
                  'FloatingToIntegral', 'FloatingCast', 'BooleanToSignedIntegral'):
            return '((%s)%s)' % (self.ctype(self.etype(e), e), self.rv(sub, cx))
        if ck in ('IntegralToBoolean', 'PointerToBoolean', 'FloatingToBoolean', 'MemberPointerToBoolean'):
            return '((_Bool)(%s != 0))' % self.rv(sub, cx)
        if ck == 'NullToPointer':
            return '((%s)0)' % self.ctype(self.etype(e), e)
        if ck == 'ToVoid':
            return '((void)%s)' % self.rv(sub, cx)
        if ck in ('DerivedToBase', 'UncheckedDerivedToBase'):
            if self.is_glvalue(e):
                return self.to_base_lv(e, sub, cx)
            # pointer conversion
            sti = self.einfo(sub); tti = self.einfo(e)
            path = self.base_index(self.ast.record_def(sti['rec']), self.ast.record_def(tti['rec'])['id'])
            if path is None:
                self.err(e, 'base path not found')
            return '(&(%s)->%s)' % (self.rv(sub, cx), '.'.join(path))
        if ck == 'BaseToDerived':
            if self.is_glvalue(e):
                return self.to_derived_lv(e, sub, cx)
            return '((%s)%s)' % (self.ctype(self.etype(e), e), self.rv(sub, cx))
        if ck in ('ConstructorConversion', 'UserDefinedConversion'):
            return self.rv(sub, cx)
        if ck == 'Dependent':
            self.err(e, 'dependent cast')
        self.err(e, 'cast kind %s' % ck)

    def unary(self, e, cx):
        op = e['opcode']
        sub = e['inner'][0]
        if op == '&':
            s = unwrap(sub)
            if s.get('kind') == 'DeclRefExpr' and s['referencedDecl']['kind'] in FUNC_KINDS:
                return self.fn_cname(self.ast.byid[s['referencedDecl']['id']])
            return '(&%s)' % self.lv(sub, cx)
        if op == '*':
            return '(*%s)' % self.rv(sub, cx)
        if op in ('++', '--'):
            l = self.lv(sub, cx)
            if e.get('isPostfix'):
                return '(%s%s)' % (l, op)
            return '(%s%s)' % (op, l)
        if op in ('!', '-', '~', '+'):
            return '(%s%s)' % (op, self.rv(sub, cx))
        if op == '__extension__':
            return self.rv(sub, cx)
        self.err(e, 'unary %s' % op)

    def pack_size(self, e):
        name = e.get('name')
        n = e
        seen = set()
        while n is not None and id(n) not in seen:
            seen.add(id(n))
            targs = [c for c in n.get('inner', []) if c.get('kind') == 'TemplateArgument']
            if targs and n.get('kind') in ('ClassTemplateSpecializationDecl',) + tuple(FUNC_KINDS):
                tmpl = self.ast.parent.get(n.get('id'))
                params = []
                if tmpl is not None and tmpl.get('kind') in ('ClassTemplateDecl', 'FunctionTemplateDecl'):
                    params = [c for c in tmpl.get('inner', []) if c.get('kind') in
                              ('TemplateTypeParmDecl', 'NonTypeTemplateParmDecl', 'TemplateTemplateParmDecl')]
                names = [p.get('name') for p in params]
                if name in names and len(params) == len(targs):
                    ta = targs[names.index(name)]
                    if ta.get('isPack'):
                        return len(ta.get('inner', []))
                elif name not in names:
                    pass
                else:
                    packs = [t for t in targs if t.get('isPack')]
                    if len(packs) == 1:
                        return len(packs[0].get('inner', []))
            n = self.ast.parent.get(n.get('id'))
        self.err(e, 'cannot determine sizeof...(%s)' % name)

    def sub_with_pre(self, e, cx, fn=None):
        """lower e capturing its pre-statements separately"""
        saved = cx.pre
        cx.pre = []
        v = (fn or self.rv)(e, cx)
        pre = cx.pre
        cx.pre = saved
        return v, pre

    def binary(self, e, cx):
        op = e['opcode']
        a, b = e['inner']
        if op in ('&&', '||'):
            av = self.rv(a, cx)
            bv, bpre = self.sub_with_pre(b, cx)
            if not bpre:
                return '(%s %s %s)' % (av, op, bv)
            t = cx.newtmp('sc')
            self.emit_pre(cx, '_Bool %s = %s;' % (t, av))
            cond = t if op == '&&' else '!%s' % t
            self.emit_pre(cx, 'if (%s) {' % cond)
            for l in bpre:
                self.emit_pre(cx, '  ' + l)
            self.emit_pre(cx, '  %s = %s;' % (t, bv))
            self.emit_pre(cx, '}')
            return t
        if op == ',':
            av = self.rv(a, cx)
            self.emit_pre(cx, '(void)(%s);' % av)
            return self.rv(b, cx)
        if op in ASSIGN_OPS:
            if self.is_class(a):
                return self.class_assign(a, b, cx)
            # C++17: right operand sequenced before left
            bv = self.rv(b, cx)
            l = self.lv(a, cx)
            return '(%s %s %s)' % (l, op, bv)
        if op in ('.*', '->*'):
            self.err(e, 'pointer to member')
        return '(%s %s %s)' % (self.rv(a, cx), op, self.rv(b, cx))

    def class_assign(self, a, b, cx):
        ti = self.einfo(a)
        if self.rec_by_value(ti['rec']):
            bv = self.rv(b, cx)
            return '(%s = %s)' % (self.lv(a, cx), bv)
        self.err(a, 'assignment of non-trivially-copyable class')

    def conditional(self, e, cx):
        c, a, b = e['inner']
        # assert( x ) expands to  (static_cast<bool>(x) ? void(0) : __assert_fail(...))
        bb = unwrap(b)
        if bb.get('kind') == 'CallExpr':
            cal = self.callee_decl(bb)
            if cal is not None and cal.get('name') == '__assert_fail':
                cv = self.rv(c, cx)
                self.emit_pre(cx, '__CPROVER_assert(%s, "repo_assert %s");' % (cv, self.ast.loc(e).replace('"', '')))
                return '((void)0)'
        cv = self.rv(c, cx)
        av, apre = self.sub_with_pre(a, cx)
        bv, bpre = self.sub_with_pre(b, cx)
        if not apre and not bpre:
            return '(%s ? %s : %s)' % (cv, av, bv)
        ti = self.einfo(e)
        isvoid = ti['c'] == 'void' and not ti['suf']
        t = cx.newtmp('cd')
        if not isvoid:
            self.emit_pre(cx, '%s;' % self.decl_of(ti, t))
        self.emit_pre(cx, 'if (%s) {' % cv)
        for l in apre:
            self.emit_pre(cx, '  ' + l)
        self.emit_pre(cx, ('  (void)%s;' % av) if isvoid else ('  %s = %s;' % (t, av)))
        self.emit_pre(cx, '} else {')
        for l in bpre:
            self.emit_pre(cx, '  ' + l)
        self.emit_pre(cx, ('  (void)%s;' % bv) if isvoid else ('  %s = %s;' % (t, bv)))
        self.emit_pre(cx, '}')
        return '((void)0)' if isvoid else t

    def initlist_value(self, e, cx):
        ti = self.einfo(e)
        if ti['kind'] == 'rec' and not ti['suf']:
            if not self.rec_by_value(ti['rec']):
                return self.class_temp(e, cx)
            rec = self.ast.record_def(ti['rec'])
            self.need_record(ti['rec'])
            nb = len(self.ast.bases(rec))
            fields = self.ast.fields(rec)
            items = []
            inits = e.get('inner', [])
            for i, x in enumerate(inits):
                if i < nb:
                    items.append('._b%d = %s' % (i, self.rv(x, cx)))
                else:
                    f = fields[i - nb]
                    if self.is_ref(self.decl_type_str(f)):
                        items.append('.%s = &%s' % (f['name'], self.lv(x, cx)))
                    else:
                        items.append('.%s = %s' % (f['name'], self.rv(x, cx)))
            if not items:
                return '((%s){0})' % ti['c']
            return '((%s){ %s })' % (ti['c'], ', '.join(items))
        if len(e.get('inner', [])) == 1 and not any(x.startswith('[') for x in ti['suf']):
            return self.rv(e['inner'][0], cx)
        if not e.get('inner'):
            return '((%s)0)' % self.decl_of(ti)
        self.err(e, 'init list for non-record')

    # ------------------------------------------------------------- into
    def into(self, e, target, cx):
        """construct the class prvalue e into the C lvalue `target`"""
        k = e.get('kind')
        if k in ('ExprWithCleanups', 'CXXBindTemporaryExpr', 'ParenExpr', 'ConstantExpr'):
            return self.into(e['inner'][0], target, cx)
        if k == 'CXXFunctionalCastExpr' or (k in ('ImplicitCastExpr', 'CXXStaticCastExpr', 'CStyleCastExpr')
                                            and e.get('castKind') in ('ConstructorConversion', 'NoOp', 'UserDefinedConversion')):
            return self.into(e['inner'][0], target, cx)
        if k == 'MaterializeTemporaryExpr':
            return self.into(e['inner'][0], target, cx)
        if k in ('CXXConstructExpr', 'CXXTemporaryObjectExpr'):
            return self.construct(e, target, cx)
        if k in ('CallExpr', 'CXXMemberCallExpr', 'CXXOperatorCallExpr'):
            r = self.call(e, cx, target=target)
            if r is not None:
                self.emit_pre(cx, '%s = %s;' % (target, r))
            return
        if k == 'InitListExpr':
            ti = self.einfo(e)
            if ti['kind'] == 'rec' and self.rec_by_value(ti['rec']):
                self.emit_pre(cx, '%s = %s;' % (target, self.initlist_value(e, cx)))
                return
            return self.aggregate_into(e, target, cx)
        if k == 'LambdaExpr':
            return self.lambda_into(e, target, cx)
        if k == 'CXXStdInitializerListExpr':
            return self.stdinit_into(e, target, cx)
        if k == 'ConditionalOperator':
            c, a, b = e['inner']
            cv = self.rv(c, cx)
            self.emit_pre(cx, 'if (%s) {' % cv)
            saved = cx.pre; cx.pre = []
            self.into(a, target, cx)
            ap = cx.pre; cx.pre = []
            self.into(b, target, cx)
            bp = cx.pre; cx.pre = saved
            for l in ap:
                self.emit_pre(cx, '  ' + l)
            self.emit_pre(cx, '} else {')
            for l in bp:
                self.emit_pre(cx, '  ' + l)
            self.emit_pre(cx, '}')
            return
        if k == 'CXXDefaultInitExpr' or k == 'CXXDefaultArgExpr':
            self.err(e, 'default init as class prvalue')
        # glvalue of by-value class being copied
        ti = self.einfo(e)
        if ti['kind'] == 'rec' and self.rec_by_value(ti['rec']):
            self.emit_pre(cx, '%s = %s;' % (target, self.rv(e, cx)))
            return
        self.err(e, 'unsupported class prvalue')

    def aggregate_into(self, e, target, cx):
        ti = self.einfo(e)
        rec = self.ast.record_def(ti['rec'])
        nb = len(self.ast.bases(rec))
        fields = self.ast.fields(rec)
        for i, x in enumerate(e.get('inner', [])):
            if i < nb:
                self.into(x, '%s._b%d' % (target, i), cx)
                continue
            f = fields[i - nb]
            self.init_field(f, x, '%s.%s' % (target, f['name']), cx)

    def init_field(self, f, x, ftarget, cx):
        fts = self.decl_type_str(f)
        fti = self.tinfo(fts, f)
        if self.is_ref(fts):
            self.emit_pre(cx, '%s = &%s;' % (ftarget, self.lv(x, cx)))
        elif fti['kind'] == 'rec' and not fti['suf']:
            self.into(x, ftarget, cx)
        else:
            self.emit_pre(cx, '%s = %s;' % (ftarget, self.rv(x, cx)))

    def construct(self, e, target, cx):
        ti = self.einfo(e)
        rid = ti['rec']
        if rid is None:
            # scalar "construction"
            args = e.get('inner', [])
            self.emit_pre(cx, '%s = %s;' % (target, self.rv(args[0], cx) if args else '0'))
            return
        rec = self.ast.record_def(rid)
        args = e.get('inner', [])
        if self.model_record(rid):
            self.need_record(rid)
            if self.model_construct(e, rec, target, args, cx):
                return
            self.err(e, 'constructor of a modelled library class outside the model')
        ctor = self.ctor_of(e)
        # copy / move of the same class
        if len(args) == 1:
            a = args[0]
            try:
                ati = self.einfo(a)
            except Unsupported:
                ati = None
            if ati and ati['kind'] == 'rec' and not ati['suf'] and \
                    self.ast.record_def(ati['rec'])['id'] == rec['id']:
                if e.get('elidable') or not self.is_glvalue(unwrap(a, ('ExprWithCleanups', 'CXXBindTemporaryExpr', 'MaterializeTemporaryExpr', 'ParenExpr'))):
                    # guaranteed elision / elidable copy of a prvalue
                    return self.into(unwrap(a, ('MaterializeTemporaryExpr',)), target, cx)
                if self.rec_by_value(rid) and (ctor is None or ctor.get('isImplicit') or ctor.get('explicitlyDefaulted')):
                    self.emit_pre(cx, '%s = %s;' % (target, self.rv(a, cx)))
                    return
        if ctor is None:
            if not args:
                return self.default_init(rec, target, cx, zero=bool(e.get('zeroing')), node=e)
            self.err(e, 'constructor not resolved: %s' % e.get('ctorType', {}).get('qualType'))
        if (ctor.get('isImplicit') or ctor.get('explicitlyDefaulted')) and not self.ast.params(ctor) \
                and self.ast.body(ctor) is None:
            return self.default_init(rec, target, cx, zero=bool(e.get('zeroing')), node=e)
        if e.get('zeroing'):
            self.emit_pre(cx, '%s = (%s){0};' % (target, ti['c']))
        cargs = ['&%s' % target] + self.lower_args(ctor, args, cx, e)
        cname = self.fn_cname(ctor)
        self.emit_pre(cx, '%s(%s);' % (cname, ', '.join(cargs)))
        self.exc_check_if(ctor, cx)

    def default_init(self, rec, target, cx, zero, node):
        self.need_record(rec['id'])
        if zero:
            self.emit_pre(cx, '%s = (struct %s){0};' % (target, self.rec_tag(rec['id'])))
        bi = 0
        for b in self.ast.bases(rec):
            r = self.resolve_base(strip_cv(self.ast.tstr(b['type'])), rec)
            if r[0] == 'rec':
                self.default_init(self.ast.record_def(r[1]), '%s._b%d' % (target, bi), cx, False, node)
            bi += 1
        for f in self.ast.fields(rec):
            init = [c for c in f.get('inner', []) if 'valueCategory' in c or c.get('kind') in ('InitListExpr',)]
            fti = self.tinfo(self.decl_type_str(f), f)
            if init:
                self.init_field(f, init[0], '%s.%s' % (target, f['name']), cx)
            elif fti['kind'] == 'rec' and not fti['suf'] and self.ast.record_def(fti['rec']).get('completeDefinition') \
                    and not self.rec_is_external(fti['rec']):
                self.default_init(self.ast.record_def(fti['rec']), '%s.%s' % (target, f['name']), cx, False, node)

    # ------------------------------------------------------------- calls
    def lower_args(self, fd, args, cx, e):
        params = self.ast.params(fd)
        out = []
        variadic = fd.get('variadic')
        for i, a in enumerate(args):
            if i < len(params):
                out.append(self.lower_arg(params[i], a, cx, fd))
            elif variadic:
                out.append(self.rv(a, cx))
            else:
                self.err(e, 'too many arguments')
        return out

    def lower_arg(self, p, a, cx, fd):
        pts = self.decl_type_str(p)
        if a.get('kind') == 'CXXDefaultArgExpr':
            init = [c for c in p.get('inner', []) if 'valueCategory' in c]
            if not init:
                if not self.fn_is_lifted(fd):
                    # default argument of a library function (trusted model): an unconstrained object of the right type
                    pti = self.tinfo(pts, p)
                    t = cx.newtmp('da')
                    if self.is_ref(pts):
                        bti = dict(pti); bti['suf'] = pti['suf'][:-1]
                        self.emit_pre(cx, '%s;' % self.decl_of(bti, t))
                        return '&%s' % t
                    self.emit_pre(cx, '%s;' % self.decl_of(pti, t))
                    return t
                # the default argument may live on another declaration of fd
                self.err(a, 'default argument not found')
            a = init[0]
        if self.is_ref(pts):
            return '&%s' % self.lv(a, cx)
        pti = self.tinfo(pts, p)
        if pti['kind'] == 'rec' and not pti['suf']:
            if not self.rec_by_value(pti['rec']):
                # pass a pointer to a temporary (callee receives by value => by pointer)
                return '&%s' % self.lv(a, cx) if self.is_glvalue(a) else '&%s' % self.class_temp(a, cx)
            return self.rv(a, cx)
        return self.rv(a, cx)

    def call(self, e, cx, target=None):
        """returns C expression for the result (pointer expr when the call
        returns a reference); for sret calls constructs into target (or a temp)
        and returns None when target was given, else the temp name."""
        k = e['kind']
        callee = e['inner'][0]
        args = e['inner'][1:]
        c = callee
        while c.get('kind') in ('ImplicitCastExpr', 'ParenExpr'):
            c = c['inner'][0]
        fd = None
        this_ptr = None
        if c.get('kind') == 'DeclRefExpr':
            rid = c['referencedDecl']['id']
            fd = self.ast.byid.get(rid)
            if fd is None or fd.get('kind') not in FUNC_KINDS:
                self.err(e, 'indirect call')
        elif c.get('kind') == 'MemberExpr':
            rid = c.get('referencedMemberDecl')
            fd = self.ast.byid.get(rid)
            if fd is None or fd.get('kind') not in FUNC_KINDS:
                self.err(e, 'call through data member')
            if fd.get('storageClass') != 'static':
                base = c['inner'][0]
                if c.get('isArrow'):
                    this_ptr = self.rv(base, cx)
                else:
                    this_ptr = '&%s' % self.lv(base, cx)
            else:
                # evaluate the object expression for side effects? it is a plain lvalue in PEGTL
                pass
        elif c.get('kind') == 'CXXPseudoDestructorExpr':
            return '((void)0)'
        else:
            self.err(e, 'callee expression %s' % c.get('kind'))
        fd = self.ast.definition(fd)
        if k == 'CXXOperatorCallExpr' and fd.get('kind') == 'CXXMethodDecl' and fd.get('storageClass') != 'static':
            obj = args[0]; args = args[1:]
            this_ptr = '&%s' % self.lv(obj, cx)
        q = self.ast.qualname(fd)
        # ---- special cases
        if q in ('std::move', 'std::forward', 'std::as_const') and len(args) == 1:
            return '&%s' % self.lv(args[0], cx)
        if fd.get('name') in ('__builtin_is_constant_evaluated', '__is_constant_evaluated') or q == 'std::is_constant_evaluated':
            return '0'
        if fd.get('name') == '__builtin_unreachable':
            self.emit_pre(cx, '__CPROVER_assert(0, "repo_assert unreachable reached %s");' % self.ast.loc(e))
            self.emit_pre(cx, '__CPROVER_assume(0);')
            return '((void)0)'
        if fd.get('name') == '__builtin_expect' and len(args) == 2:
            return self.rv(args[0], cx)
        if q == 'std::throw_with_nested' and len(args) == 1:
            self.throw_value(args[0], cx, nested=True)
            return '((void)0)'
        if q in ('std::terminate', 'abort', 'std::abort'):
            self.emit_pre(cx, '__CPROVER_assert(0, "repo_terminate %s");' % self.ast.loc(e))
            self.emit_pre(cx, '__CPROVER_assume(0);')
            return '((void)0)'
        if fd.get('name') == 'operator=' and this_ptr is not None and \
                (fd.get('isImplicit') or fd.get('explicitlyDefaulted')):
            rec = self.ast.enclosing_record(fd)
            if rec is not None and self.rec_by_value(rec['id']):
                t = cx.newtmp('as')
                self.emit_pre(cx, 'struct %s* %s = %s;' % (self.rec_tag(rec['id']), t, this_ptr))
                self.emit_pre(cx, '*%s = %s;' % (t, self.rv(args[0], cx)))
                return t
        hook = self.special_call(fd, q, this_ptr, args, e, cx, target)
        if hook is not None:
            return hook[0]
        # ---- general
        cname = self.fn_cname(fd)
        rts = self.fn_rettype(fd, e)
        rti = self.tinfo(rts, fd)
        cargs = []
        if this_ptr is not None:
            cargs.append(this_ptr)
        sret = rti['kind'] == 'rec' and not rti['suf'] and not self.rec_by_value(rti['rec'])
        made_tmp = None
        if sret:
            if target is None:
                made_tmp = cx.newtmp('r')
                self.emit_pre(cx, '%s;' % self.decl_of(rti, made_tmp))
                target_ = made_tmp
            else:
                target_ = target
            cargs.append('&%s' % target_)
        cargs += self.lower_args(fd, args, cx, e)
        callstr = '%s(%s)' % (cname, ', '.join(cargs))
        throws = self.fn_may_throw(fd)
        isvoid = rti['c'] == 'void' and not rti['suf']
        if sret:
            self.emit_pre(cx, callstr + ';')
            if throws:
                self.exc_check(cx)
            if made_tmp:
                self.reg_temp_dtor(made_tmp, rti['rec'], cx, e)
                return made_tmp
            return None
        if throws or isvoid and cx.pre is not None and False:
            pass
        if throws:
            if isvoid:
                self.emit_pre(cx, callstr + ';')
                self.exc_check(cx)
                return '((void)0)'
            t = cx.newtmp('v')
            self.emit_pre(cx, '%s = %s;' % (self.decl_of(rti, t), callstr))
            self.exc_check(cx)
            return t
        return callstr

    def special_call(self, fd, q, this_ptr, args, e, cx, target):
        return None

    def fn_rettype(self, fd, e=None):
        rts = self.fn_rettype_str(fd)
        try:
            self.tinfo(rts, fd)
        except Unsupported:
            rts = 'auto' 
        if rts in ('auto', 'decltype(auto)', 'auto &', 'const auto &', 'auto &&') or 'decltype' in rts or 'auto' == rts.split()[0:1]:
            if e is not None:
                t = self.etype(e)
                vc = e.get('valueCategory')
                if vc == 'lvalue':
                    t += ' &'
                elif vc == 'xvalue':
                    t += ' &&'
                return t
            # find a return statement
            r = self.find_return_type(fd)
            if r:
                return r
            raise Unsupported('cannot determine return type of %s' % self.ast.qualname(fd))
        return rts

    def find_return_type(self, fd):
        stack = [self.ast.body(fd)] if self.ast.body(fd) else []
        while stack:
            n = stack.pop()
            if n.get('kind') == 'ReturnStmt':
                if n.get('inner'):
                    return self.etype(n['inner'][0])
                return 'void'
            if n.get('kind') == 'LambdaExpr':
                continue
            for c in reversed(n.get('inner', [])):
                if isinstance(c, dict):
                    stack.append(c)
        return 'void'

    def exc_check_if(self, fd, cx):
        if self.fn_may_throw(fd):
            self.exc_check(cx)

    def exc_check(self, cx):
        for l in self.exc_edge(cx):
            self.emit_pre(cx, l)
