#!/bin/bash
# usage: mut.sh <name> <prop> <sed-expr> <file-rel> [VF_ONLY]
n=$1; prop=$2; expr=$3; f=$4; only=$5
scr=/tmp/wt/m_$n; rm -rf $scr; mkdir -p $scr
git -C /repo archive HEAD include | tar -x -C $scr
sed -i "$expr" $scr/$f
(cd $scr && diff -r /repo/include include | head -8)
VF_ONLY="$only" VF_REPO=$scr VF_WORK=/tmp/wt/w_$n VF_JOBS=8 python3 /verif/tools/vf.py check $prop > /tmp/wt/m_$n.log 2>&1; rc=$?
echo "MUT $n $prop: exit=$rc viol=$(grep -c '^VIOLATION' /tmp/wt/m_$n.log) undec=$(grep -c '^UNDECIDED' /tmp/wt/m_$n.log)"; grep '^VIOLATION\|^UNDECIDED' /tmp/wt/m_$n.log | cut -c1-260 | head -4; tail -1 /tmp/wt/m_$n.log
rm -rf $scr /tmp/wt/w_$n
