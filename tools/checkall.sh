#!/bin/bash
# runs every claimed check (quick tier) and prints one line per property
cd /verif
for p in $(python3 -c "import json; print(' '.join(c['property_id'] for c in json.load(open('MANIFEST.json'))['checks']))") "$@"; do
  out=$(python3 tools/vf.py check $p 2>&1); rc=$?
  echo "exit=$rc $(echo "$out" | tail -1) $(echo "$out" | grep -c '^KNOWN-FINDING')kf"
done
