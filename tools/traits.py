"""C11, premise P2: the consumption expression the analysis uses for a rule is read from the REAL analyze_traits
(include/tao/pegtl/contrib/analyze_traits.hpp and the traits next to contrib rules) on every run.

A small native program instantiates analyze_traits< Rule, Rule::rule_t > for every rule named by the contract
groups and folds it exactly as analyze_cycles_impl::work() does (any: true, opt: false, seq: or over the
sub-rules, sor: and over the sub-rules); opaque sub-rules vf::R<i> become the ghost bits g_c[i].  The result
is a C expression that the groups put in front of the clause `succeeds ==> consumed > 0`.
Not a proof step: a compile-time evaluation of the real templates by the host compiler (trusted like the
lowering's use of clang's template instantiation)."""
import os, json, hashlib, subprocess
import vfcore

GEN = r'''
#include <tao/pegtl.hpp>
#include <tao/pegtl/contrib/analyze_traits.hpp>
%(includes)s
#include <string>
#include <vector>
#include <cstdio>
namespace vf {
using namespace tao::pegtl;
template< int I > struct R { using rule_t = R; using subs_t = empty_list; };
using internal::analyze_type;
}
namespace tao::pegtl {
// marker traits for the opaque sub-rules (some real traits delegate to analyze_traits< Name, Sub::rule_t > directly)
template< typename Name, int I > struct analyze_traits< Name, vf::R< I > > { static constexpr internal::analyze_type type_v = internal::analyze_type( 100 + I ); using subs_t = type_list<>; };
}
namespace vf {
template< typename T, typename = void > struct complete : std::false_type {};
template< typename T > struct complete< T, std::void_t< decltype( sizeof( T ) ) > > : std::true_type {};
// symbolic run of analyze_cycles_impl::work( rule, accum ) over the real traits; the consumption bits of the opaque
// sub-rules stay symbolic.  visits: "i=accum" for every visit of R<i>; backs: accum at every re-entry of a rule on the stack.
struct rec { std::string visits, backs; bool notraits = false; };
using accs = std::vector< std::string >;   // per rule on the stack (innermost first): consumption accumulated since that rule was entered
template< typename Rule, typename... Stack > std::string ev( rec& r, const std::string& acc, const accs& sacc );
inline std::string lor( const std::string& a, const std::string& b ) { return "(" + a + " || " + b + ")"; }
inline std::string land( const std::string& a, const std::string& b ) { return "(" + a + " && " + b + ")"; }
inline accs child_accs( const accs& sacc, const std::string& a )
{  // the child's stack is ( Self, Stack... ): since Self was entered `a` has been accumulated, the outer rules add it to theirs
   accs out; out.push_back( a );
   for( const auto& x : sacc ) out.push_back( lor( x, a ) );
   return out;
}
template< typename Self, typename... Stack, typename... Rs > std::string ev_seq( rec& r, const std::string& acc, const accs& sacc, type_list< Rs... > )
{  // a = false; for( r : subs ) a = a || work( r, accum || a );
   std::string a = "0";
   ( ( a = lor( a, ev< Rs, Self, Stack... >( r, lor( acc, a ), child_accs( sacc, a ) ) ) ), ... );
   return a;
}
template< typename Self, typename... Stack, typename... Rs > std::string ev_sor( rec& r, const std::string& acc, const accs& sacc, type_list< Rs... > )
{  // a = true; for( r : subs ) a = work( r, accum ) && a;
   std::string a = "1";
   ( ( a = land( ev< Rs, Self, Stack... >( r, acc, child_accs( sacc, "0" ) ), a ) ), ... );
   return a;
}
template< std::size_t J, typename Rule, typename First, typename... Rest > constexpr std::size_t index_of()
{
   if constexpr( std::is_same_v< Rule, First > ) { return J; }
   else { return index_of< J + 1, Rule, Rest... >(); }
}
template< typename Rule, typename... Stack > std::string ev( rec& r, const std::string& acc, const accs& sacc )
{
   static_assert( sizeof...( Stack ) < 24, "analyze_traits nesting too deep for the premise generator" );
   using T = analyze_traits< Rule, typename Rule::rule_t >;
   if constexpr( ( std::is_same_v< Rule, Stack > || ... ) ) {
      // re-entry of a rule that is on the stack: every rule is also analysed as a root (accum = false), so the re-entry is
      // reported unless something was consumed since THAT rule was entered
      r.backs += sacc[ index_of< 0, Rule, Stack... >() ] + ";";
      return acc;
   }
   else if constexpr( !complete< T >::value ) { r.notraits = true; return "0"; }   // analyze< G >() does not compile for such a grammar
   else if constexpr( int( T::type_v ) >= 100 ) { const std::string i = std::to_string( int( T::type_v ) - 100 ); r.visits += i + "=" + acc + ";"; return "g_c[" + i + "]"; }
   else if constexpr( T::type_v == analyze_type::any ) { (void)ev_seq< Rule, Stack... >( r, acc, sacc, typename T::subs_t() ); return "1"; }
   else if constexpr( T::type_v == analyze_type::opt ) { (void)ev_seq< Rule, Stack... >( r, acc, sacc, typename T::subs_t() ); return "0"; }
   else if constexpr( T::type_v == analyze_type::seq ) { return ev_seq< Rule, Stack... >( r, acc, sacc, typename T::subs_t() ); }
   else { return ev_sor< Rule, Stack... >( r, acc, sacc, typename T::subs_t() ); }
}
}
%(decls)s
using namespace vf;
int main() {
%(prints)s
   return 0;
}
'''


def _parse(tok, i):
    """fully parenthesised: expr := atom | '(' expr (op expr)* ')' with one operator per level -> (tree, next)"""
    if tok[i] != '(':
        return tok[i], i + 1
    i += 1
    items, op = [], None
    while True:
        t, i = _parse(tok, i)
        items.append(t)
        if tok[i] == ')':
            return (op or '||', items), i + 1
        assert op in (None, tok[i]), 'mixed operators in one level'
        op = tok[i]
        i += 1


def _fold(t):
    if isinstance(t, str):
        return t
    op, items = t
    items = [_fold(x) for x in items]
    absorb, neutral = ('1', '0') if op == '||' else ('0', '1')
    if absorb in items:
        return absorb
    items = [x for x in items if x != neutral]
    if not items:
        return neutral
    return items[0] if len(items) == 1 else '(' + (' %s ' % op).join(items) + ')'


def _simplify(e):
    """constant folding of the tiny boolean language, keeps g_c[i] symbolic"""
    import re
    tok = re.findall(r'\(|\)|\|\||&&|g_c\[\d+\]|[01]', e)
    assert ''.join(tok) == e.replace(' ', ''), e
    t, i = _parse(tok, 0)
    assert i == len(tok), e
    return _fold(t)


def trait_exprs(rules, includes=(), decls=''):
    """rules: {key: C++ rule type text, resolved inside namespace vf with `using namespace tao::pegtl`}
    -> {key: None (no analyze_traits: analyze<G>() does not compile) |
              dict(consumes=expr, left={i: expr}, back=expr|None)}, expr = C boolean expression over g_c[i] | '0' | '1'"""
    keys = sorted(rules)
    src = GEN % dict(decls=decls, includes='\n'.join('#include <%s>' % i for i in includes),
                     prints='\n'.join('   { rec r; const std::string e = ev< %s >( r, "0", accs() ); std::printf("%%s\\t%%s\\t%%s\\t%%s\\n", "%s", r.notraits ? "NOTRAITS" : e.c_str(), r.visits.c_str(), r.backs.c_str()); }' % (rules[k], k) for k in keys))
    h = hashlib.sha256((src + vfcore.include_hash()).encode()).hexdigest()[:20]
    d = os.path.join(vfcore.WORK, 'traits')
    os.makedirs(d, exist_ok=True)
    cj = os.path.join(d, h + '.json')
    if os.path.exists(cj) and not os.environ.get('VF_NOCACHE'):
        return json.load(open(cj))
    cpp = os.path.join(d, h + '.cpp')
    exe = os.path.join(d, h + '.exe')
    open(cpp, 'w').write(src)
    p = subprocess.run(['g++', '-std=c++17', '-O0', '-I', vfcore.INCLUDE, cpp, '-o', exe], capture_output=True, text=True)
    if p.returncode != 0:
        raise vfcore.Undecided('trait generator does not compile (analyze_traits changed shape?):\n' + p.stderr[-3000:])
    out = subprocess.run([exe], capture_output=True, text=True, check=True).stdout
    os.unlink(exe)
    res = {}
    for line in out.splitlines():
        k, e, visits, backs = line.split('\t')
        if 'NOTRAITS' in e:
            res[k] = None
            continue
        left = {}
        for v in filter(None, visits.split(";")):
            i, acc = v.split('=', 1)
            left.setdefault(i, []).append(acc)
        bk = [b for b in backs.split(";") if b]
        # consumes: work()'s result; left[i]: conjunction over the visits of R<i> of the accumulated consumption before it
        # (true = the analysis never looks at R<i> without prior consumption); back: the same for re-entries of a rule on the stack
        res[k] = dict(consumes=_simplify(e),
                      left={i: _simplify('(' + ' && '.join(a) + ')') for i, a in left.items()},
                      back=_simplify('(' + ' && '.join(bk) + ')') if bk else None)
    if set(res) != set(keys):
        raise vfcore.Undecided('trait generator printed %d of %d rules' % (len(res), len(keys)))
    json.dump(res, open(cj, 'w'), indent=1)
    return res
