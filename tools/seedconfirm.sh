#!/bin/bash
# usage: seedconfirm.sh <seed-id> <worktree-with-seed/>   (confirmation only: suite passes, demo fails with / passes without; does not touch /repo)
# 1. confirms the seeded change in its scratch worktree (suite passes, demo fails with / passes without)
# 2. applies it to /repo, runs the listed property checks, reverts /repo
id=$1; wt=$2; shift 2
dst=/verif/seeded/$id; mkdir -p $dst
cp $wt/seed/patch.diff $wt/seed/meta.json $dst/ 2>/dev/null
cp $wt/seed/demo.cpp $dst/ 2>/dev/null
log=$dst/confirm.log; : > $log
cd $wt
flags="-std=c++17"; grep -q "fsanitize" $wt/seed/meta.json 2>/dev/null && flags="-std=c++17 -fsanitize=address,undefined -g"
echo "== demo with change" >> $log
clang++ $flags -I$wt/include seed/demo.cpp -o /tmp/wt/demo_$id.with >> $log 2>&1 && (ASAN_OPTIONS=detect_leaks=0 /tmp/wt/demo_$id.with >> $log 2>&1; echo "exit=$?" >> $log)
with=$(tail -1 $log)
rm -rf /tmp/wt/clean_$id; mkdir -p /tmp/wt/clean_$id; git archive HEAD include | tar -x -C /tmp/wt/clean_$id
echo "== demo without change" >> $log
clang++ $flags -I/tmp/wt/clean_$id/include seed/demo.cpp -o /tmp/wt/demo_$id.without >> $log 2>&1 && (ASAN_OPTIONS=detect_leaks=0 /tmp/wt/demo_$id.without >> $log 2>&1; echo "exit=$?" >> $log)
without=$(tail -1 $log)
rm -rf /tmp/wt/clean_$id
rm -f /tmp/wt/demo_$id.with /tmp/wt/demo_$id.without
echo "== test suite with change" >> $log
cmake -G Ninja -B $wt/_build -S $wt -DPEGTL_BUILD_EXAMPLES=OFF > /dev/null 2>&1 && cmake --build $wt/_build -j16 > /dev/null 2>&1
suite=$(ctest --test-dir $wt/_build -j16 2>&1 | grep -E "tests passed|tests failed" | tail -1)
echo "$suite" >> $log
rm -rf $wt/_build
echo "CONFIRM $id: demo-with[$with] demo-without[$without] suite[$suite]"
