"""native replay of CBMC counterexamples on the real C++ headers (ASan + UBSan).
The clause texts of the contract are evaluated natively with the contract macros bound to native
variables, and the specification functions come from the same spec_*.h headers: one oracle."""
import os, re, json, subprocess, shutil
from vfcore import VERIF, WORK, INCLUDE


def split_root(tu_text, root):
    """prologue of the TU + the single line defining root_<root>"""
    lines = tu_text.split('\n')
    pro = []
    want = None
    for l in lines:
        if re.search(r'\broot_\w+\s*\(', l):
            if re.search(r'\broot_%s\s*\(' % re.escape(root), l):
                want = l
        else:
            pro.append(l)
    if want is None:
        return None
    return '\n'.join(pro) + '\n' + want + '\n'


def implies_to_cpp(t):
    depth = 0
    for i in range(len(t) - 2):
        c = t[i]
        if c in '([':
            depth += 1
        elif c in ')]':
            depth -= 1
        elif depth == 0 and t[i:i + 3] == '==>':
            return '(!(%s) || (%s))' % (t[:i], implies_to_cpp(t[i + 3:]))
    return t


def num(v, default=0):
    if v is None:
        return default
    if isinstance(v, str):
        if v in ('TRUE', 'FALSE'):
            return 1 if v == 'TRUE' else 0
        m = re.match(r'-?\d+', v)
        if m:
            return int(m.group(0))
    return default


LEAF_MAIN = r'''
#include <cstdio>
#include <cstdlib>
#include <cstring>
#define _Bool bool
#include "spec_enc.h"
%(defs)s
static bool ret; static const vf_u8* p; static size_t avail, consumed, byte0, line0, col0, byte1, line1, col1;
#define RET ret
#define UOLD(in) p
#define AVAIL_OLD(in) avail
#define CONSUMED(in) consumed
#define MONO(in) (consumed <= avail)
#define PROGRESS(in) (consumed > 0)
#define VALID_POST(in) (consumed <= avail %(cnt_pos)s)
#define ITER_UNCHANGED(in) (consumed == 0 %(cnt_same)s)
#define POS_AGREE(in, ch) (%(pos_agree)s)
static const bool vf_canary = true;
static struct { int pending; } vf_exc = { 0 };
%(defs_after)s
int main(int argc, char** argv)
{
   size_t n = %(n)d; static const unsigned char bytes[] = { %(bytes)s };
   char* buf = (char*)malloc(n ? n : 1);      /* exact-size heap object: ASan sees any read at or beyond the end */
   if (n) memcpy(buf, bytes, n);
   char* exact = (char*)realloc(buf, n ? n : 1); buf = exact;
   vf::%(intype)s in(%(ctor)s);
   p = (const vf_u8*)buf; avail = n;
   byte0 = %(byte)dul; line0 = %(line)dul; col0 = %(col)dul;
   try { ret = vf::root_%(root)s(in); } catch (...) { vf_exc.pending = 1; ret = false; }
   consumed = (size_t)(in.current() - buf);
   %(after)s
   int bad = 0;
%(checks)s
   printf("RESULT ret=%%d consumed=%%zu bad=%%d\n", (int)ret, consumed, bad);
   return bad ? 3 : 0;
}
'''


CONV_MAIN = r'''
#include <cstdio>
#include <cstdlib>
#include <cstring>
#include <string_view>
typedef unsigned __int128 WIDE;
int main()
{
   size_t n = %(n)d; static const unsigned char bytes[] = { %(bytes)s };
   char* buf = (char*)malloc(n ? n : 1); if (n) memcpy(buf, bytes, n);
   %(ctype)s r = %(r0)s;
   bool ret = vf::root_%(root)s(r, %(arg)s);
   /* oracle: the property statement itself -- exact value or overflow report, never a wrapped value */
   int bad = 0;
   const char* mode = "%(mode)s";
   size_t skip = 0; bool neg = false;
   if (mode[0] == 's' && n >= 1 && (buf[0] == '-' || buf[0] == '+')) { skip = 1; neg = buf[0] == '-'; }
   if (mode[0] == 'n') neg = true;
   bool alldig = n > skip; WIDE H = %(h0)s; bool huge = false;
   for (size_t i = skip; i < n; ++i) { if (buf[i] < '0' || buf[i] > '9') { alldig = false; break; } H = H * 10 + (WIDE)(buf[i] - '0'); if (H > ((WIDE)1 << 100)) huge = true; }
   if (alldig) {
      WIDE lim = neg ? (WIDE)%(negmax)s : (WIDE)%(max)s;
      bool expect = !huge && H <= lim;
      if (ret != expect) { printf("CLAUSE-FAILED overflow-report ret=%%d expect=%%d\n", (int)ret, (int)expect); bad = 1; }
      if (ret && expect) {
         __int128 got = (__int128)r, want = neg ? -(__int128)H : (__int128)H;
         if (got != want) { printf("CLAUSE-FAILED value-exact\n"); bad = 1; }
      }
   }
   printf("RESULT ret=%%d bad=%%d\n", (int)ret, bad);
   return bad ? 3 : 0;
}
'''


def run_native(job, src, tag, uniq=''):
    d = os.path.join(WORK, 'replay', job.name + uniq)
    shutil.rmtree(d, ignore_errors=True)
    os.makedirs(d, exist_ok=True)
    cpp = os.path.join(d, 'replay.cpp')
    open(cpp, 'w').write(src)
    exe = os.path.join(d, 'replay')
    p = subprocess.run(['clang++', '-std=c++17', '-O1', '-g', '-fsanitize=address,undefined', '-fno-sanitize-recover=undefined',
                        '-I', INCLUDE, '-I', os.path.join(VERIF, 'contracts'), cpp, '-o', exe], capture_output=True, text=True)
    if p.returncode != 0:
        return {'reproduced': False, 'note': 'replay program failed to compile', 'stderr': p.stderr[-1500:]}
    env = dict(os.environ); env['ASAN_OPTIONS'] = 'detect_leaks=0'
    try:
        r = subprocess.run([exe], capture_output=True, text=True, env=env, timeout=60)
        out = r.stdout + r.stderr
    except subprocess.TimeoutExpired:
        out = 'TIMEOUT'
    failed = re.findall(r'CLAUSE-FAILED (\S+)', out)
    san = 'AddressSanitizer' in out or 'runtime error' in out
    try:
        os.remove(exe)
    except OSError:
        pass
    return {'reproduced': bool(failed or san), 'clauses_failed_natively': failed, 'sanitizer_report': san,
            'output_tail': out[-1200:], 'program': cpp}


def conv_replay(job, rec, mod):
    rp = job.replay
    w = rec.get('witness') or {}
    n = num(w.get('w_n'))
    bs = []
    for i in range(min(n, 64)):
        v = w.get('w_b[%dl]' % i)
        bs.append(num(v) & 0xFF if v is not None else ord('0'))
    if n > len(bs):
        bs += [ord('0')] * (n - len(bs))
    tu = split_root(mod.tu(), job.root)
    if tu is None:
        return {'reproduced': False, 'note': 'root not found in TU'}
    r0 = str(num(w.get('w_r'), 0)) if rp.get('r_from_witness') else '0'
    arg = rp.get('arg', 'std::string_view(buf, n)')
    if rp.get('mode') == 'digit':
        arg = '(char)%d' % (num(w.get('w_d')) if w.get('w_d') is not None else 48)
        n = 1; bs = [num(w.get('w_d'), 48) & 0xFF]
    src = tu + CONV_MAIN % {'n': n, 'bytes': ', '.join(str(b) for b in bs) or '0', 'ctype': rp['ctype'], 'root': job.root,
                            'mode': rp.get('mode', 'pos'), 'max': rp['max'], 'negmax': rp.get('negmax', '0'), 'r0': r0,
                            'h0': '(WIDE)%s' % r0, 'arg': arg}
    res = run_native(job, src, rec.get('tag'), '_' + re.sub(r'\W+', '_', rec.get('obligation') or '')[-40:])
    res['input'] = bytes(bs[:64]).decode('latin1')
    return res


def native_replay(job, rec, mod):
    rp = job.replay
    if rp and rp.get('kind') == 'conv':
        return conv_replay(job, rec, mod)
    if not rp or rp.get('kind') != 'leaf':
        return {'reproduced': False, 'note': 'no native replay for this job kind'}
    w = rec.get('witness') or {}
    if 'w_n' not in w:
        return {'reproduced': False, 'note': 'trace carries no witness'}
    n = num(w.get('w_n')); k = num(w.get('w_k'))
    nb = rp.get('witness_bytes', 8)
    avail = max(0, n - k)
    bs = []
    for i in range(min(avail, 4096)):
        v = w.get('w_b[%dl]' % i)
        bs.append(num(v) & 0xFF if v is not None else 0)
    tu = split_root(mod.tu(), job.root)
    if tu is None:
        return {'reproduced': False, 'note': 'root not found in TU'}
    tr = rp['tracking']
    byte, line, col = num(w.get('w_byte')), max(1, num(w.get('w_line'), 1)), max(1, num(w.get('w_col'), 1))
    from common import INPUT_TYPES
    intype = INPUT_TYPES[(tr, rp.get('eol', 'lf_crlf'))]
    if tr == 'eager':
        ctor = 'buf, buf + n, "replay", byte0_, line0_, col0_'
        after = 'byte1 = in.byte(); line1 = in.line(); col1 = in.column();'
        cnt_pos = '&& line1 >= 1 && col1 >= 1'
        cnt_same = '&& byte1 == byte0 && line1 == line0 && col1 == col0'
        pos_agree = 'byte1 == byte0 + consumed && line1 == vf_pos_line((const char*)p, consumed, line0, ch) && col1 == vf_pos_col((const char*)p, consumed, col0, ch)'
    else:
        ctor = 'buf, buf + n, "replay"'
        after = ''
        cnt_pos = cnt_same = ''
        pos_agree = 'true'
    checks = []
    tags = []
    for c in job.contract.clauses:
        if c.kind != 'ensures' or c.tag.startswith('canary'):
            continue
        txt = implies_to_cpp(c.text)
        checks.append('   if (!(%s)) { printf("CLAUSE-FAILED %s\\n"); bad = 1; }' % (txt, c.tag))
        tags.append(c.tag)
    src = tu + LEAF_MAIN % {
        'defs': rp.get('defs', ''), 'defs_after': rp.get('defs_after', ''), 'n': avail, 'bytes': ', '.join(str(b) for b in bs) or '0', 'intype': intype,
        'ctor': ctor.replace('byte0_', '%dul' % byte).replace('line0_', '%dul' % line).replace('col0_', '%dul' % col),
        'byte': byte, 'line': line, 'col': col, 'root': job.root, 'after': after, 'cnt_pos': cnt_pos,
        'cnt_same': cnt_same, 'pos_agree': pos_agree, 'checks': '\n'.join(checks)}
    d = os.path.join(WORK, 'replay', job.name + '_' + re.sub(r'\W+', '_', rec.get('obligation') or '')[-40:])
    shutil.rmtree(d, ignore_errors=True)
    os.makedirs(d, exist_ok=True)
    cpp = os.path.join(d, 'replay.cpp')
    open(cpp, 'w').write(src)
    exe = os.path.join(d, 'replay')
    p = subprocess.run(['clang++', '-std=c++17', '-O1', '-g', '-fsanitize=address,undefined', '-fno-sanitize-recover=undefined',
                        '-I', INCLUDE, '-I', os.path.join(VERIF, 'contracts'), cpp, '-o', exe], capture_output=True, text=True)
    if p.returncode != 0:
        return {'reproduced': False, 'note': 'replay program failed to compile', 'stderr': p.stderr[-1500:]}
    env = dict(os.environ); env['ASAN_OPTIONS'] = 'detect_leaks=0'
    r = subprocess.run([exe], capture_output=True, text=True, env=env, timeout=60)
    out = r.stdout + r.stderr
    failed = re.findall(r'CLAUSE-FAILED (\S+)', out)
    san = 'AddressSanitizer' in out or 'runtime error' in out
    tag = rec.get('tag', '')
    reproduced = (tag in failed) or (san and (tag in ('memory-safety', 'bump-pre', 'arithmetic-overflow') or 'pre' in tag))
    if not reproduced and (failed or san):
        reproduced = True   # the same input violates the contract natively, possibly through another clause
    res = {'reproduced': reproduced, 'input_bytes_from_cursor': bs[:64], 'window_size': avail,
           'initial_counters': [byte, line, col], 'clauses_failed_natively': failed, 'sanitizer_report': san,
           'output_tail': out[-1200:], 'program': cpp}
    shutil.rmtree(os.path.join(d, 'replay'), ignore_errors=True)
    try:
        os.remove(exe)
    except OSError:
        pass
    return res
