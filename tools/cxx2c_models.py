"""trusted models of library classes that are used by value inside verified PEGTL code.
Only std::optional<T> (internal::unwind_guard) so far:  struct { _Bool _has; T _val; }  with the four
operations PEGTL uses (construct from T&&, explicit operator bool, operator*, reset) and a destructor that
drops a trivially destructible payload.  Listed in the evidence as part of the trusted base."""
from cxxast import Unsupported, strip_cv

MODELLED = ('std::optional', 'std::unique_ptr')


class ModelMixin:
    def model_record(self, rid):
        n = self.ast.record_def(rid)
        return self.ast.qualname(n) in MODELLED

    def optional_payload(self, rec):
        targs = [c for c in rec.get('inner', []) if c.get('kind') == 'TemplateArgument']
        if not targs or 'type' not in targs[0]:
            raise Unsupported('std::optional without a type argument')
        return targs[0]['type']['qualType']

    def model_struct(self, rid):
        rec = self.ast.record_def(rid)
        if self.ast.qualname(rec) == 'std::unique_ptr':
            # owning pointer to an array: only get() is used by buffer_input; ownership/deallocation is not modelled
            pts = self.optional_payload(rec)
            if pts.endswith('[]'):
                pts = pts[:-2].strip()
            pti = self.tinfo(pts + ' *', rec)
            return 'struct %s { /* trusted model of %s */\n  %s;\n};' % (self.rec_tag(rid), self.rec_pretty(rid), self.decl_of(pti, '_p'))
        pts = self.optional_payload(rec)
        pti = self.tinfo(pts, rec)
        if pti['kind'] == 'rec' and not pti['suf'] and not self.rec_trivial_dtor(pti['rec']):
            raise Unsupported('std::optional of a non-trivially destructible type')
        tag = self.rec_tag(rid)
        return 'struct %s { /* trusted model of %s */\n  _Bool _has;\n  %s;\n};' % (tag, self.rec_pretty(rid), self.decl_of(pti, '_val'))

    def model_dtor(self, rid, cexpr, cx):
        if self.model_record(rid):
            if self.ast.qualname(self.ast.record_def(rid)) == 'std::unique_ptr':
                return []
            return ['%s._has = 0;' % cexpr]
        return None

    def model_construct(self, e, rec, target, args, cx):
        """std::optional<T>(U&&) / optional() / optional(nullopt)"""
        if not args:
            self.emit_pre(cx, '%s._has = 0;' % target)
            return True
        if len(args) == 1:
            a = args[0]
            ts = self.ast.tstr(a['type'])
            if 'nullopt' in ts:
                self.emit_pre(cx, '%s._has = 0;' % target)
                return True
            self.emit_pre(cx, '%s._has = 1;' % target)
            pti = self.tinfo(self.optional_payload(rec), rec)
            if pti['kind'] == 'rec' and not pti['suf']:
                self.into(a, '%s._val' % target, cx) if not self.is_glvalue(a) else self.emit_pre(cx, '%s._val = %s;' % (target, self.rv(a, cx)))
            else:
                self.emit_pre(cx, '%s._val = %s;' % (target, self.rv(a, cx)))
            return True
        return False

    def special_call(self, fd, q, this_ptr, args, e, cx, target):
        rec = self.ast.enclosing_record(fd) if fd.get('kind') != 'FunctionDecl' else None
        if rec is None or self.ast.qualname(rec) not in MODELLED or this_ptr is None:
            return None
        name = fd.get('name')
        obj = '(*%s)' % this_ptr
        if self.ast.qualname(rec) == 'std::unique_ptr':
            if name == 'get':
                return ('%s._p' % obj,)
            raise Unsupported('std::unique_ptr::%s is not in the trusted model' % name)
        if name == 'operator bool' or name == 'has_value':
            return ('%s._has' % obj,)
        if name == 'operator*' or name == 'value':
            return ('&%s._val' % obj,)
        if name == 'operator->':
            return ('&%s._val' % obj,)
        if name == 'reset':
            self.emit_pre(cx, '%s._has = 0;' % obj)
            return ('((void)0)',)
        raise Unsupported('std::optional::%s is not in the trusted model' % name)
