#!/usr/bin/env python3
"""regenerates /verif/MANIFEST.json from the table in contracts/claims.py"""
import json, os, sys
sys.path.insert(0, os.path.join(os.path.dirname(os.path.abspath(__file__)), '..', 'contracts'))
import claims
V = os.path.dirname(os.path.dirname(os.path.abspath(__file__)))
props = [json.loads(l)['id'] for l in open(os.path.join(V, 'properties.jsonl'))]
checks = []
for pid in props:
    c = claims.CLAIMS.get(pid)
    if not c:
        continue
    checks.append({
        'property_id': pid,
        'quick_cmd': 'python3 tools/vf.py check %s --tier quick' % pid,
        'thorough_cmd': 'python3 tools/vf.py check %s --tier thorough' % pid,
        'evidence_file': 'evidence/%s.json' % pid,
        'replay_cmd_template': 'python3 tools/vf.py replay {path}',
        'engine': 'cxx2c+cbmc-dfcc',
        'level_claimed': {'category': 'proof', 'text': c['text'], 'design_ref': c.get('design', 'DESIGN.md section 5')},
        'level_note': c['note'],
        'technique': c.get('technique', 'contract-based deductive verification: CBMC 6.11 code contracts (goto-instrument --dfcc) on a mechanical C lowering of the instantiated templates'),
    })
na = [{'property_id': p, 'reason': claims.NOT_APPLICABLE.get(p, 'not yet under contract in this session')} for p in props if p not in claims.CLAIMS]
m = {
    'version': 1,
    'setup_cmd': 'true',
    'hooks': {'guard': 'TAO_PEGTL_VERIF', 'enable': 'no hooks: contracts are woven into a mechanical C lowering of the instantiated templates (tools/cxx2c.py), /repo is not instrumented',
              'baseline_off_cmd': 'cd /repo && cmake --build _build -j16 >/dev/null && ctest --test-dir _build -j8 --timeout 900',
              'source_commits': [], 'add_only': True},
    'engines': [{'name': 'cxx2c+cbmc-dfcc', 'path': 'tools/vf.py', 'serves_properties': [c['property_id'] for c in checks],
                 'kind_free_text': 'clang JSON AST -> C lowering -> CBMC code contracts (dfcc), native ASan/UBSan replay of counterexamples'}],
    'checks': checks,
    'not_applicable': na,
    'notes': claims.NOTES,
}
json.dump(m, open(os.path.join(V, 'MANIFEST.json'), 'w'), indent=1)
print('claimed:', [c['property_id'] for c in checks])
