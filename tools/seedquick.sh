#!/bin/bash
# quick feedback on a seeded change without touching /repo: checks run against a scratch copy of include/
# usage: seedquick.sh <seed-id> <worktree> <prop>...
id=$1; wt=$2; shift 2
dst=/verif/seeded/$id; mkdir -p $dst
cp $wt/seed/patch.diff $wt/seed/meta.json $wt/seed/demo.cpp $dst/ 2>/dev/null
scr=/tmp/wt/scr_$id; rm -rf $scr; mkdir -p $scr
git -C /repo archive HEAD include | tar -x -C $scr
(cd $scr && git apply --unsafe-paths -p1 $dst/patch.diff 2>/dev/null || patch -s -p1 < $dst/patch.diff) || { echo "PATCH FAILED $id"; exit 1; }
for p in "$@"; do
  VF_REPO=$scr VF_WORK=/tmp/wt/work_$id VF_JOBS=8 python3 /verif/tools/vf.py check $p > /tmp/wt/quick_${id}_$p.log 2>&1; rc=$?
  echo "QUICK $id $p: exit=$rc $(grep -c '^VIOLATION' /tmp/wt/quick_${id}_$p.log) violations $(grep -c '^UNDECIDED' /tmp/wt/quick_${id}_$p.log) undecided | $(grep '^VIOLATION' /tmp/wt/quick_${id}_$p.log | head -1 | cut -c1-220)"
done
rm -rf $scr /tmp/wt/work_$id
