#!/usr/bin/env python3
"""vf -- property checks.  usage: vf.py check <PROP> [--tier quick|thorough]
exit 0: every obligation attributed to the property discharged (known findings printed)
exit 1: VIOLATION property=<id> replay=<path>
exit 2: undecided (tool limit, weave mismatch, timeout) -- never a violation"""
import os, sys, re, json, time, importlib, glob, argparse, traceback
sys.path.insert(0, os.path.dirname(os.path.abspath(__file__)))
import vfcore
from vfcore import VERIF, WORK, Undecided

sys.path.insert(0, os.path.join(VERIF, 'contracts'))


def load_groups():
    mods = {}
    for p in sorted(glob.glob(os.path.join(VERIF, 'contracts', 'g_*.py'))):
        name = os.path.basename(p)[:-3]
        m = importlib.import_module(name)
        if hasattr(m, 'SUBGROUPS'):
            # one lowering run per sub-group (e.g. per tracking mode): jobs name the sub-group they belong to
            for sub, tu_fn in m.SUBGROUPS.items():
                mods[sub] = _Sub(m, sub, tu_fn)
        else:
            mods[m.NAME] = m
    return mods


class _Sub:
    def __init__(self, mod, name, tu_fn):
        self.mod, self.NAME, self._tu = mod, name, tu_fn
        self.ASSUMPTIONS = getattr(mod, 'ASSUMPTIONS', [])
        self._first = list(mod.SUBGROUPS)[0] == name

    def tu(self):
        return self._tu()

    def jobs(self, tier):
        return [j for j in self.mod.jobs(tier) if j.group == self.NAME]


def known_findings():
    p = os.path.join(VERIF, 'known_findings.json')
    if not os.path.exists(p):
        return []
    return json.load(open(p)).get('findings', [])


def match_finding(kf, prop, job, tag, obname):
    if kf.get('status', 'open') != 'open':
        return False
    if kf['property'] != prop:
        return False
    if not re.fullmatch(kf['job'], job.name):
        return False
    if 'tag' in kf and not re.fullmatch(kf['tag'], tag):
        return False
    return True


def witness_from_trace(trace):
    w = {}
    for st in trace or []:
        if st.get('stepType') == 'assignment':
            lhs = st.get('lhs', '')
            if lhs.startswith('w_') or lhs.startswith('g_'):
                v = st.get('value', {})
                d = v.get('data')
                if d is None and 'elements' in v:
                    d = [e.get('value', {}).get('data') for e in v['elements']]
                w[lhs] = d
    return w


def write_replay(prop, job, res, ob, tag, tier):
    d = os.path.join(VERIF, 'replays') if not os.environ.get('VF_REPO') else os.path.join(WORK, 'replays')
    os.makedirs(d, exist_ok=True)
    path = os.path.join(d, '%s__%s__%s.json' % (prop, job.name, re.sub(r'\W+', '_', ob['name'] or 'ob')))
    rec = {'property': prop, 'job': job.name, 'group': job.group, 'root': job.root,
           'function': res.get('entry_pretty'), 'obligation': ob['name'], 'description': ob['desc'],
           'tag': tag, 'tier': tier, 'checker_cmd': res.get('checker_cmd'),
           'witness': witness_from_trace(ob.get('trace')),
           'cbmc_trace_tail': [s for s in (ob.get('trace') or []) if s.get('stepType') in ('assignment', 'failure')][-60:],
           'ghost_assignments': [[str(s.get('lhs')), (s.get('value') or {}).get('data')] for s in (ob.get('trace') or [])
                                 if s.get('stepType') == 'assignment' and str(s.get('lhs', '')).startswith('g_') and (s.get('value') or {}).get('data') is not None][-400:],
           'native_replay': None}
    json.dump(rec, open(path, 'w'), indent=1, default=str)
    return path, rec


def check(prop, tier, seed):
    t0 = time.time()
    mods = load_groups()
    jobs = []
    for m in mods.values():
        for j in m.jobs(tier):
            relevant = prop in j.props or any(prop in c.props for c in j.contract.clauses) or \
                any((not callable(st_[1])) and any(prop in c.props for c in st_[1].clauses) for st_ in j.stubs)
            if getattr(j, 'serves', None):
                relevant = prop in j.serves
            if relevant:
                jobs.append(j)
    if os.environ.get('VF_ONLY'):   # development aid only: restrict to some jobs (never set by a registered command)
        import re as _re
        jobs = [j for j in jobs if _re.search(os.environ['VF_ONLY'], j.name)]
    vfcore.RUN_TAG = prop
    for j in jobs:
        j.loops = {k: vfcore.select_sections(v, prop) for k, v in j.loops.items()}   # keys: (pattern, ordinal[, 'opt'])
    natives = []
    for m in mods.values():
        nc = getattr(getattr(m, 'mod', m), 'native_checks', None)
        if nc:
            natives += [n for n in nc(tier) if prop in n['props']]
    if not jobs and not natives:
        print('no jobs serve property %s' % prop)
        return 2
    groups = {}
    lower_s = 0.0
    undecided = []
    from concurrent.futures import ThreadPoolExecutor as _TPE

    def _lower(g):
        try:
            return g, vfcore.lower_group(g, mods[g].tu()), None
        except Undecided as ex:
            return g, None, ex
    with _TPE(max_workers=8) as ex_:
        for g, val, err in ex_.map(_lower, sorted(set(j.group for j in jobs))):
            if err is not None:
                undecided.append('group %s: %s' % (g, err))
            else:
                groups[g] = val
    if undecided:
        for u in undecided:
            print('UNDECIDED %s' % u)
        return 2
    results = vfcore.run_jobs(jobs, groups, tier)
    kfs = known_findings()
    n_ob = n_dis = 0
    violations = []
    known = []
    fn_table = []
    samples = []
    bounded_parts = []
    trusted = set()
    n_bounded = 0
    unknowns = []
    native_violation = False
    for j, r in results:
        if r['status'] != 'done':
            undecided.append('job %s: %s' % (j.name, r['reason']))
            continue
        canaries_seen = {}
        job_ob = job_dis = 0
        for ob in r['obligations']:
            tag, props, kind = vfcore.classify(ob, r, j)
            if tag.startswith('canary'):
                canaries_seen[tag] = ob['status']
                continue
            if prop not in props:
                continue
            if j.bounded:
                n_bounded += 1
            else:
                job_ob += 1
            if ob['status'] == 'SUCCESS':
                if not j.bounded:
                    job_dis += 1
                if len(samples) < 6 and kind in ('postcondition', 'callee-precondition'):
                    samples.append({'job': j.name, 'obligation': ob['name'], 'tag': tag, 'status': 'SUCCESS',
                                    'function': r.get('entry_pretty')})
            elif ob['status'] == 'FAILURE':
                kf = [k for k in kfs if match_finding(k, prop, j, tag, ob['name'])]
                if kf:
                    known.append((kf[0], j, ob, tag))
                    if not j.bounded:
                        job_ob -= 1      # reported as KNOWN-FINDING, counted separately (not an obligation of the proof claim)
                else:
                    violations.append((j, r, ob, tag))
            else:
                unknowns.append((j, ob))
                if not j.bounded:
                    job_ob -= 1      # left UNKNOWN by cbmc: reported separately (undecided unless the job already fails), never counted
        for c in j.expect_fail_canary:
            st = canaries_seen.get(c)
            if st != 'FAILURE':
                undecided.append('job %s: vacuity canary %s is %s (must FAIL)' % (j.name, c, st))
        n_ob += job_ob; n_dis += job_dis
        fn_table.append({'job': j.name, 'function': r.get('entry_pretty'), 'obligations': job_ob, 'discharged': job_dis,
                         'backend': r['backend'], 'solver_s': r['solver_s'], 'replaced_callees': len(r.get('replaced', [])), 'summarised_callees': r.get('summarised', []),
                         'bounded': j.bounded})
        if j.bounded:
            bounded_parts.append({'job': j.name, 'bound': j.bounded})
        for t in getattr(j, 'trusted', []) or []:
            trusted.add(t)
        for t in r.get('trusted_library_calls', []) or []:
            trusted.add('library call under the default contract (touches only its own opaque object): ' + t.split('(')[0][:120])
    # ---- bounded native stand-ins (never counted as proof)
    import subprocess as _sp
    native_results = []
    for n in natives:
        exe = os.path.join(WORK, 'native', n['name'])
        os.makedirs(os.path.dirname(exe), exist_ok=True)
        b = _sp.run(['g++', '-std=c++17', '-O2', '-I', vfcore.INCLUDE, '-I', os.path.join(VERIF, 'contracts'), os.path.join(VERIF, n['src']), '-o', exe], capture_output=True, text=True)
        if b.returncode != 0:
            undecided.append('native check %s does not build: %s' % (n['name'], b.stderr[-400:]))
            continue
        try:
            r_ = _sp.run([exe] + n.get('args', []), capture_output=True, text=True, timeout=1800)
        except _sp.TimeoutExpired:
            undecided.append('native check %s timed out' % n['name'])
            continue
        out_ = r_.stdout
        native_results.append({'name': n['name'], 'bound': n['bound'], 'result': [l for l in out_.splitlines() if l.startswith('RESULT')][-1:] , 'exit': r_.returncode})
        bounded_parts.append({'job': n['name'], 'bound': n['bound']})
        if r_.returncode != 0:
            bad = [l for l in out_.splitlines() if l.startswith(('UNSOUND', 'MISMATCH'))]
            # open known findings of a native check name the class of failing cases (regex on the printed line): every other failing
            # case is a violation
            kfs_ = [k for k in kfs if k.get('status', 'open') == 'open' and k['property'] == prop and k.get('job') == n['name']]
            new_bad = [l for l in bad if not any(re.search(k.get('tag', '.'), l) for k in kfs_)]
            for k in kfs_:
                if any(re.search(k.get('tag', '.'), l) for l in bad):
                    print('KNOWN-FINDING: property=%s %s' % (prop, k.get('what')))
            native_results[-1]['known_finding_cases'] = len(bad) - len(new_bad)
            if new_bad or not bad:
                d_ = os.path.join(VERIF, 'replays') if not os.environ.get('VF_REPO') else os.path.join(WORK, 'replays'); os.makedirs(d_, exist_ok=True)
                rp = os.path.join(d_, '%s__%s.json' % (prop, n['name']))
                json.dump({'property': prop, 'job': n['name'], 'bound': n['bound'], 'failing_cases': new_bad[:20], 'output_tail': out_[-1500:],
                           'native_replay': {'reproduced': True, 'note': 'the failing cases were produced by running the real code natively'}}, open(rp, 'w'), indent=1)
                print('VIOLATION property=%s replay=%s obligation=%s (bounded native stand-in) %s' % (prop, rp, n['name'], new_bad[0] if new_bad else ''))
                native_violation = True
        os.remove(exe)
    # obligations left UNKNOWN by cbmc: undecided, unless the same job already has a violation of this property
    vio_jobs = set(j.name for j, r, ob, tag in violations) | set(j.name for kf, j, ob, tag in known)
    for j, ob in unknowns:
        if j.name not in vio_jobs:
            undecided.append('job %s: obligation %s status %s' % (j.name, ob['name'], ob['status']))
    # ---- report
    rc = 0
    seen_kf = set()
    for kf, j, ob, tag in known:
        key = (kf.get('id'), )
        if key in seen_kf:
            continue
        seen_kf.add(key)
        print('KNOWN-FINDING: property=%s %s' % (prop, kf.get('what', kf.get('id'))))
    import vfreplay
    from concurrent.futures import ThreadPoolExecutor
    prepared = []
    small_cache = {}

    def small_witness(j, ob):
        """second CBMC run of the job with the harness restricted to a small window (-DVF_SMALL), so that
        the witness variables capture the complete input of the counterexample"""
        if j.name not in small_cache:
            cpath, info = groups[j.group]
            try:
                small_cache[j.name] = vfcore.run_job(j, cpath, info, tier, defines=['-DVF_SMALL'], subdir='.small', witness_mode=True, timeout=90)
            except Exception:
                small_cache[j.name] = None
        r2 = small_cache[j.name]
        if not r2 or r2.get('status') != 'done':
            return None
        for o2 in r2['obligations']:
            if o2['name'] == ob['name'] and o2['status'] == 'FAILURE' and o2.get('trace'):
                return o2
        return None
    for j, r, ob, tag in violations:
        ob2 = small_witness(j, ob) if j.replay else None
        path, rec = write_replay(prop, j, r, ob2 or ob, tag, tier)
        rec['witness_from_small_window_rerun'] = ob2 is not None
        prepared.append((j, r, ob, tag, path, rec))

    def do_replay(item):
        j, r, ob, tag, path, rec = item
        try:
            if not j.replay and j.group in ('comb', 'comb2', 'exc'):
                import vfreplay_comb
                return vfreplay_comb.comb_replay(j, rec, mods[j.group], groups[j.group][1], r, ob.get('trace'))
            return vfreplay.native_replay(j, rec, mods[j.group])
        except Exception as ex:
            return {'reproduced': False, 'error': 'replay machinery: %s' % ex}
    REPLAY_CAP = 16
    with ThreadPoolExecutor(max_workers=8) as ex:
        nats = list(ex.map(do_replay, prepared[:REPLAY_CAP]))
    nats += [{'reproduced': False, 'note': 'native replay not run: more than %d violations in this run' % REPLAY_CAP}] * max(0, len(prepared) - REPLAY_CAP)
    for (j, r, ob, tag, path, rec), nat in zip(prepared, nats):
        suffix = ''
        rec['native_replay'] = nat
        json.dump(rec, open(path, 'w'), indent=1, default=str)
        if not (nat and nat.get('reproduced')):
            suffix = ' no-failing-input-found'
        print('VIOLATION property=%s replay=%s obligation=%s tag=%s job=%s%s' % (prop, path, ob['name'], tag, j.name, suffix))
        rc = 1
    if native_violation:
        rc = 1
    for u in undecided:
        print('UNDECIDED %s' % u)
    if undecided and rc == 0:
        rc = 2
    wall = time.time() - t0
    assumptions = list(getattr(mods[list(mods)[0]], 'COMMON_ASSUMPTIONS', [])) if mods else []
    for g in sorted(set(j.group for j in jobs)):
        assumptions += list(getattr(mods[g], 'ASSUMPTIONS', []))
    ev = {
        'property_id': prop, 'tier': tier, 'seed': seed, 'level': 'proof',
        'coverage': {
            'obligations': n_ob, 'discharged': n_dis,
            'checker_cmd': 'goto-cc --function main woven.c; goto-instrument --dfcc main --enforce-contract <fn> [--replace-call-with-contract <stub>]... [--apply-loop-contracts]; cbmc ' + ' '.join(vfcore.CBMC_CHECKS) + ' (SAT back end unless a job says z3)',
            'trusted_base': sorted(trusted | set(['clang 14 front end (template instantiation, constant evaluation)', 'cxx2c lowering (tools/cxx2c*.py)', 'CBMC 6.11 dfcc instrumentation and SAT back end'])),
            'functions_under_contract': fn_table,
            'jobs': len(jobs), 'jobs_undecided': len(undecided),
            'solver_runs_reused_from_content_cache': sum(1 for j, r in results if r.get('cached')),
            'samples': samples or [{'note': 'no postcondition obligation attributed'}],
            'bounded_parts': bounded_parts, 'bounded_obligations_not_counted': n_bounded, 'bounded_native_stand_ins': native_results,
            'known_findings_hit': sorted(set(k[0].get('id') for k in known)),
            'obligations_failing_as_listed_known_findings': len(known),
            'solver_s_total': round(sum(f['solver_s'] for f in fn_table), 1),
        },
        'assumptions': sorted(set(assumptions)),
        'wall_s': round(wall, 1), 'violations': len(violations),
    }
    evdir = os.path.join(VERIF, 'evidence') if not (os.environ.get('VF_REPO') or os.environ.get('VF_ONLY')) else os.path.join(WORK, 'evidence')   # scratch-copy and partial runs do not touch the committed evidence
    os.makedirs(evdir, exist_ok=True)
    json.dump(ev, open(os.path.join(evdir, '%s.json' % prop), 'w'), indent=1)
    print('%s: %d jobs, %d/%d obligations discharged, %d violations, %d known, %d undecided, %.0fs' % (
        prop, len(jobs), n_dis, n_ob, len(violations), len(known), len(undecided), wall))
    return rc


def main():
    ap = argparse.ArgumentParser()
    ap.add_argument('cmd')
    ap.add_argument('prop', nargs='?')
    ap.add_argument('--tier', default=os.environ.get('VERIF_TIER', 'quick'))
    a = ap.parse_args()
    seed = int(os.environ.get('VERIF_SEED', '0') or 0)
    if a.cmd == 'check':
        try:
            rc = check(a.prop, a.tier, seed)
        except Undecided as ex:
            print('UNDECIDED %s' % ex)
            rc = 2
        sys.exit(rc)
    if a.cmd == 'replay':
        # re-decide the one obligation a replay file names, on the current tree: exit 1 + VIOLATION if it still fails
        rec = json.load(open(a.prop))
        os.environ['VF_ONLY'] = '^%s$' % re.escape(rec['job'])
        import io, contextlib
        buf = io.StringIO()
        try:
            with contextlib.redirect_stdout(buf):
                rc = check(rec['property'], rec.get('tier', 'quick'), seed)
        except Undecided as ex:
            print('UNDECIDED %s' % ex)
            sys.exit(2)
        hit = [l for l in buf.getvalue().splitlines() if l.startswith('VIOLATION') and ('obligation=%s ' % rec['obligation']) in l + ' ']
        other = [l for l in buf.getvalue().splitlines() if l.startswith(('VIOLATION', 'UNDECIDED', 'KNOWN-FINDING'))]
        for l in hit or other:
            print(l)
        if rec.get('native_replay'):
            print('native replay recorded at the time: %s' % str(rec['native_replay'])[:400])
        print('replay of %s in job %s: %s' % (rec['obligation'], rec['job'], 'still fails' if hit else 'does not fail on the current tree'))
        sys.exit(1 if hit else (2 if rc == 2 else 0))
    if a.cmd == 'lower':
        mods = load_groups()
        for g, m in mods.items():
            if a.prop and g != a.prop:
                continue
            try:
                cpath, info = vfcore.lower_group(g, m.tu())
                print(g, cpath, len(info['functions']))
            except Undecided as ex:
                print('UNDECIDED', g, ex)
        return
    print('unknown command')
    sys.exit(2)


if __name__ == '__main__':
    main()
