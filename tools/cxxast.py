#!/usr/bin/env python3
"""Index over a clang-14 `-ast-dump=json` translation unit: ids, parents,
source locations, type-string evidence, typedefs, records, enums."""
import json, os, pickle, re, sys, hashlib

sys.setrecursionlimit(20000)


class Unsupported(Exception):
    pass


RECORD_KINDS = ('CXXRecordDecl', 'ClassTemplateSpecializationDecl',
                'ClassTemplatePartialSpecializationDecl')
FUNC_KINDS = ('FunctionDecl', 'CXXMethodDecl', 'CXXConstructorDecl',
              'CXXDestructorDecl', 'CXXConversionDecl')


def load_json(path):
    cache = path + '.pkl'
    if os.path.exists(cache) and os.path.getmtime(cache) >= os.path.getmtime(path):
        with open(cache, 'rb') as f:
            return pickle.load(f)
    with open(path) as f:
        d = json.load(f)
    try:
        with open(cache, 'wb') as f:
            pickle.dump(d, f, protocol=pickle.HIGHEST_PROTOCOL)
    except Exception:
        pass
    return d


def split_top(s, sep=','):
    """split s at top-level separators (outside <>, (), [])."""
    out, depth, cur = [], 0, ''
    i = 0
    while i < len(s):
        c = s[i]
        if c in '<([':
            depth += 1
        elif c in '>)]':
            depth -= 1
        if c == sep and depth == 0:
            out.append(cur.strip()); cur = ''
        else:
            cur += c
        i += 1
    if cur.strip():
        out.append(cur.strip())
    return out


class AST:
    def __init__(self, root):
        self.root = root
        self.byid = {}
        self.parent = {}
        self.typemap = {}      # printed type string -> decl id (record / enum)
        self.by_mangled = {}   # mangled name -> function node having a body
        self.redecl = {}       # id -> canonical (defining) id
        self.typedefs = []     # (node, parent)
        self.lambda_by_type = {}   # '(lambda at file:l:c)' -> closure record id (first instantiated one)
        self.typemap_all = {}      # printed type string -> every decl id printed that way (closures and the specialisations over them share one string)
        self.closure_loc = {}      # closure record id -> its '(lambda at ...)' string
        self.spec_closure = {}     # id of a class template specialisation over a closure type -> that closure's record id
        self._lambdas = []
        self._index()

    # ------------------------------------------------------------------ index
    def _index(self):
        last = {'file': None, 'line': None}

        def upd(loc):
            if not isinstance(loc, dict):
                return
            if 'spellingLoc' in loc or 'expansionLoc' in loc:
                # order in the dump: spellingLoc first, then expansionLoc
                upd(loc.get('spellingLoc')); upd(loc.get('expansionLoc'))
                return
            if 'file' in loc:
                last['file'] = loc['file']
            if 'line' in loc:
                last['line'] = loc['line']

        stack = [(self.root, None)]
        # iterative preorder in document order
        while stack:
            n, p = stack.pop()
            if not isinstance(n, dict):
                continue
            if 'loc' in n:
                upd(n['loc'])
            if 'range' in n:
                upd(n['range'].get('begin')); upd(n['range'].get('end'))
            n['_file'] = last['file']; n['_line'] = last['line']
            nid = n.get('id')
            k = n.get('kind')
            if nid is not None and k is not None:
                if nid not in self.byid or 'inner' in n:
                    self.byid[nid] = n
                self.parent[nid] = p
            if k in ('RecordType', 'EnumType', 'InjectedClassNameType') and 'decl' in n:
                qt = n.get('type', {}).get('qualType')
                if qt and 'id' in n['decl']:
                    self.typemap.setdefault(qt, n['decl']['id'])
                    if '(lambda at ' in qt and n['decl']['id'] not in self.typemap_all.setdefault(qt, []):
                        self.typemap_all[qt].append(n['decl']['id'])
            if k in ('TypedefDecl', 'TypeAliasDecl'):
                self.typedefs.append(n)
            if k == 'LambdaExpr' and n.get('inner') and n['inner'][0].get('kind') == 'CXXRecordDecl':
                self._lambdas.append(n)
            if k in FUNC_KINDS and 'mangledName' in n:
                if any(c.get('kind') == 'CompoundStmt' for c in n.get('inner', [])) \
                        or n.get('explicitlyDefaulted'):
                    self.by_mangled.setdefault(n['mangledName'], n)
            inner = n.get('inner')
            if inner:
                for c in reversed(inner):
                    stack.append((c, n))
        for n in self._lambdas:
            qt = n.get('type', {}).get('qualType')
            if qt and not self._dependent_ctx(n):
                self.lambda_by_type.setdefault(qt, n['inner'][0]['id'])
                self.closure_loc[n['inner'][0]['id']] = qt
        # which closure a class template specialisation over a lambda type belongs to: all specialisations over the lambdas
        # of one source location print alike; the closure whose members its own member functions reference tells them apart
        self.specs_over_closures = []     # (template name, specialisation id, closure id)
        for sid, sn in list(self.byid.items()):
            if sn.get('kind') != 'ClassTemplateSpecializationDecl' or sid in self.closure_loc:
                continue
            if not any(c.get('kind') == 'TemplateArgument' and '(lambda at ' in c.get('type', {}).get('qualType', '') for c in sn.get('inner', [])):
                continue
            st = [sn]
            found = None
            while st and found is None:
                x = st.pop()
                for key in ('referencedDecl', 'referencedMemberDecl'):
                    r = x.get(key)
                    rid = r.get('id') if isinstance(r, dict) else r
                    if rid is not None:
                        q = self.parent.get(rid)
                        if q is not None and q.get('id') in self.closure_loc:
                            found = q['id']
                for c in x.get('inner', []) or []:
                    if isinstance(c, dict):
                        st.append(c)
            if found is not None:
                self.spec_closure[sid] = found
                self.specs_over_closures.append((sn.get('name'), sid, found))
        # specialisations whose members never touch the closure (std::optional<L>: the payload sits in a base) are associated by
        # order: the k-th specialisation of a template over the lambdas of one location belongs to the k-th closure of that
        # location.  The order rule is only used where it is confirmed by every directly associated template of the same location.
        closures_by_loc = {}
        for cid, loc in self.closure_loc.items():
            closures_by_loc.setdefault(loc, []).append(cid)
        groups = {}
        for sid, sn in self.byid.items():
            if sn.get('kind') != 'ClassTemplateSpecializationDecl' or not sn.get('completeDefinition'):
                continue
            ta = [c for c in sn.get('inner', []) if c.get('kind') == 'TemplateArgument']
            if ta and ta[0].get('type', {}).get('qualType', '') in closures_by_loc:
                groups.setdefault((ta[0]['type']['qualType'], sn.get('name')), []).append(sid)
        confirmed = {}
        for (loc, nm), sids in groups.items():
            if all(x in self.spec_closure for x in sids):
                ok = [self.spec_closure[x] for x in sids] == closures_by_loc[loc][:len(sids)] and len(sids) == len(closures_by_loc[loc])
                confirmed[loc] = confirmed.get(loc, True) and ok
        for (loc, nm), sids in groups.items():
            if not any(x in self.spec_closure for x in sids) and confirmed.get(loc) and len(sids) == len(closures_by_loc[loc]):
                for x, cid in zip(sids, closures_by_loc[loc]):
                    self.spec_closure[x] = cid
                    self.specs_over_closures.append((nm, x, cid))
        # functions by mangled name: only real instantiations / ordinary functions, never template patterns
        self.by_mangled = {}
        for nid, n in self.byid.items():
            if n.get('kind') in FUNC_KINDS and 'mangledName' in n:
                if any(c.get('kind') == 'CompoundStmt' for c in n.get('inner', [])) or n.get('explicitlyDefaulted'):
                    if not self._dependent_ctx(n) and 'type-parameter' not in n.get('type', {}).get('qualType', ''):
                        self.by_mangled.setdefault(n['mangledName'], n)
        # more type-string evidence: copy/move constructors, assignment operators, `this`
        for nid, n in list(self.byid.items()):
            k = n.get('kind')
            if k in ('CXXConstructorDecl', 'CXXMethodDecl') and (k == 'CXXConstructorDecl' or n.get('name') == 'operator='):
                ps = [c for c in n.get('inner', []) if c.get('kind') == 'ParmVarDecl']
                if len(ps) == 1:
                    ts = ps[0].get('type', {}).get('desugaredQualType') or ps[0].get('type', {}).get('qualType', '')
                    if ts.endswith('&'):
                        b, suf = parse_type(ts)
                        rec = self.enclosing_record(n)
                        if rec is not None and rec.get('kind') != 'ClassTemplatePartialSpecializationDecl' \
                                and rec.get('name') and b.split('<')[0].split('::')[-1] == rec.get('name') \
                                and not self._dependent_ctx(rec):
                            self.typemap.setdefault(b, rec['id'])
        # plain (non-template) records and enums by qualified name
        for nid, n in list(self.byid.items()):
            k = n.get('kind')
            if k in ('EnumDecl', 'CXXRecordDecl') and n.get('name'):
                ok = True
                for p in self.scope_chain(n):
                    if p.get('kind') not in ('NamespaceDecl', 'TranslationUnitDecl', 'LinkageSpecDecl', 'CXXRecordDecl'):
                        ok = False; break
                    if p.get('kind') == 'CXXRecordDecl' and self._dependent_ctx(p):
                        ok = False; break
                if ok and not (k == 'CXXRecordDecl' and self._dependent_ctx(n)):
                    q = self.qualname(n)
                    if k == 'EnumDecl' or n.get('completeDefinition') or q not in self.typemap:
                        if k == 'CXXRecordDecl' and not n.get('completeDefinition') and q in self.typemap:
                            continue
                        self.typemap.setdefault(q, nid) if not n.get('completeDefinition') else self.typemap.__setitem__(q, nid) if q not in self.typemap or not self.byid[self.typemap[q]].get('completeDefinition') else None
        # typedef table: name -> list of nodes
        self.typedef_by_name = {}
        for t in self.typedefs:
            self.typedef_by_name.setdefault(t.get('name'), []).append(t)

    def _dependent_ctx(self, rec):
        """true when rec is (inside) a template pattern rather than an instantiation"""
        n = rec
        seen = set()
        while n is not None:
            if id(n) in seen:
                return False
            seen.add(id(n))
            p = self.parent.get(n.get('id'))
            if p is None:
                return False
            if p.get('kind') == 'ClassTemplateDecl' and n.get('kind') == 'CXXRecordDecl':
                return True
            if n.get('kind') == 'ClassTemplatePartialSpecializationDecl':
                return True
            if p.get('kind') == 'FunctionTemplateDecl' and n.get('kind') in FUNC_KINDS and \
                    not any(c.get('kind') == 'TemplateArgument' for c in n.get('inner', [])):
                return True
            n = p
        return False

    # ------------------------------------------------------------- navigation
    def node(self, nid):
        return self.byid[nid]

    def sem_parent(self, n):
        pid = n.get('parentDeclContextId')
        if pid and pid in self.byid:
            return self.byid[pid]
        return self.parent.get(n.get('id'))

    def ctx_closure(self, loc, ctx_node):
        """the closure record of the lambda printed as `loc` that the code at ctx_node means: the one created in the
        enclosing function instantiation, or the one the enclosing closure / specialisation belongs to"""
        a = ctx_node
        seen = set()
        while a is not None and id(a) not in seen:
            seen.add(id(a))
            k = a.get('kind')
            aid = a.get('id')
            if k == 'LambdaExpr' and a.get('type', {}).get('qualType') == loc and a.get('inner'):
                return a['inner'][0]['id']
            if aid in self.closure_loc and self.closure_loc[aid] == loc:
                return aid
            if aid in self.spec_closure and self.closure_loc.get(self.spec_closure[aid]) == loc:
                return self.spec_closure[aid]
            if k in FUNC_KINDS:
                st = [a]
                while st:
                    x = st.pop()
                    if x.get('kind') == 'LambdaExpr' and x.get('type', {}).get('qualType') == loc and x.get('inner') \
                            and x['inner'][0].get('kind') == 'CXXRecordDecl':
                        return x['inner'][0]['id']
                    for c in x.get('inner', []) or []:
                        if isinstance(c, dict):
                            st.append(c)
            a = self.parent.get(aid) if aid is not None else None
        return None

    def enclosing_record(self, n):
        for p in self.scope_chain(n):
            if p.get('kind') in RECORD_KINDS:
                return p
            if p.get('kind') in ('NamespaceDecl', 'TranslationUnitDecl'):
                return None
        return None

    def scope_chain(self, n):
        out = []
        seen = set()
        p = self.sem_parent(n)
        while p is not None and id(p) not in seen:
            seen.add(id(p))
            out.append(p)
            p = self.sem_parent(p)
        return out

    def qualname(self, n):
        parts = [n.get('name', '?')]
        for p in self.scope_chain(n):
            k = p.get('kind')
            if k == 'NamespaceDecl':
                if p.get('name'):
                    parts.append(p['name'])
            elif k in RECORD_KINDS:
                parts.append(p.get('name', '?'))
        return '::'.join(reversed(parts))

    def in_namespace(self, n, names):
        for p in self.scope_chain(n):
            if p.get('kind') == 'NamespaceDecl' and p.get('name') in names:
                # must be top-level namespace
                pp = self.sem_parent(p)
                if pp is None or pp.get('kind') == 'TranslationUnitDecl':
                    return True
        return False

    def loc(self, n):
        return '%s:%s' % (n.get('_file'), n.get('_line'))

    def body(self, fn):
        for c in fn.get('inner', []):
            if c.get('kind') == 'CompoundStmt':
                return c
        return None

    def definition(self, fn):
        """the declaration of this function that carries the body, if any."""
        if self.body(fn) is not None:
            return fn
        m = fn.get('mangledName')
        if m and m in self.by_mangled:
            return self.by_mangled[m]
        return fn

    def params(self, fn):
        return [c for c in fn.get('inner', []) if c.get('kind') == 'ParmVarDecl']

    # ---------------------------------------------------------------- records
    def record_def(self, nid):
        n = self.byid[nid]
        if n.get('completeDefinition'):
            return n
        # look for a redeclaration with a definition
        name = n.get('name')
        p = self.parent.get(nid)
        if p is not None:
            for c in p.get('inner', []):
                if c.get('kind') == n.get('kind') and c.get('name') == name and c.get('completeDefinition'):
                    if n.get('kind') == 'CXXRecordDecl':
                        return c
        # follow previousDecl chains from every same-named record (rare)
        return n

    def fields(self, rec):
        return [c for c in rec.get('inner', []) if c.get('kind') == 'FieldDecl']

    def bases(self, rec):
        return rec.get('bases', [])

    def methods(self, rec, kinds=FUNC_KINDS):
        out = []
        for c in rec.get('inner', []):
            if c.get('kind') in kinds:
                out.append(c)
            elif c.get('kind') == 'FunctionTemplateDecl':
                for cc in c.get('inner', []):
                    if cc.get('kind') in kinds:
                        out.append(cc)
        return out

    def tstr(self, t):
        """best available printed type of a `type` object."""
        if t is None:
            return None
        d = t.get('desugaredQualType')
        if d and 'type-parameter-' in d:
            d = None     # clang printed the sugar of a partial specialisation: resolve the written name in context instead
        return d or t.get('qualType')


def strip_cv(s):
    s = s.strip()
    changed = True
    while changed:
        changed = False
        for kw in ('const ', 'volatile ', 'struct ', 'class ', 'enum ', 'typename '):
            if s.startswith(kw):
                s = s[len(kw):].strip(); changed = True
        for kw in (' const', ' volatile', ' __restrict'):
            if s.endswith(kw):
                s = s[:-len(kw)].strip(); changed = True
    return s


def parse_type(s):
    """returns (base, [suffixes]) where suffixes is a list of '*', '&', '&&',
    '[N]' from innermost to outermost; cv-qualifiers are dropped."""
    s = s.strip()
    suf = []
    while True:
        s = s.strip()
        if s.endswith('*const') or s.endswith('* const'):
            s = s[:s.rfind('*') + 1]
        if s.endswith('__restrict'):
            s = s[:-len('__restrict')]
            continue
        if s.endswith(' const') or s.endswith(' volatile') or s.endswith(' __restrict'):
            s = s[:s.rfind(' ')]
            continue
        if s.endswith('&&'):
            suf.append('&&'); s = s[:-2]; continue
        if s.endswith('&'):
            suf.append('&'); s = s[:-1]; continue
        if s.endswith('*'):
            suf.append('*'); s = s[:-1]; continue
        if s.endswith(']'):
            # find matching [
            i = s.rfind('[')
            suf.append(s[i:]); s = s[:i]; continue
        break
    suf.reverse()
    return strip_cv(s), suf


def sanitize(s):
    return re.sub(r'[^A-Za-z0-9_]', '_', s)


def short_hash(s, n=8):
    return hashlib.md5(s.encode()).hexdigest()[:n]
