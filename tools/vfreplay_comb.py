"""native replay of combinator counterexamples ("stub playback").

A CBMC counterexample of a combinator job is a sequence of oracle sub-rule outcomes (which R<i> was called, did it
succeed, how far did it move the cursor, did it raise).  The replay instantiates the REAL combinator from /repo with
scripted sub-rules vf::R<i> that play that sequence back on a buffer of 'x' bytes (ASan + UBSan build), records the
calls the real code makes, and then
  * for a failed precondition of a sub-rule stub (wrong order / position / apply mode / rewind mode / one call too many):
    reproduced iff the real code, after consuming the whole script, makes exactly the offending call
    (same sub-rule, same apply and rewind mode);
  * for a failed postcondition: the clause text is evaluated natively with the ghost vocabulary rebuilt from the
    recorded calls (g_called, g_ok, g_len, g_ncalls, g_last, g_iter, g_pos, RET, CONSUMED, ITER_UNCHANGED, ...);
    reproduced iff it evaluates to false.  Clauses that use vocabulary without a native meaning do not compile and are
    reported as not replayable (the VIOLATION line then ends with no-failing-input-found as before)."""
import os, re, json, subprocess, shutil
from vfcore import VERIF, WORK, INCLUDE
from vfreplay import split_root, implies_to_cpp, num

GHOST_ARR = ('g_called', 'g_ok', 'g_len', 'g_ncalls')


def stub_calls(trace, k):
    """sequence of stub outcomes from the (slimmed) trace.  A stub call shows as the havoc of its assigns targets in the order
    ..., g_last, g_called[i] = 1, g_ok[i], g_len[i], ..., g_cur, ..., g_exc_obj: one entry per `g_last` that is followed by
    g_called[i] = 1 (the initial nondeterministic state also assigns g_last once)"""
    calls = []
    cur = None
    for s in trace or []:
        if s.get('stepType') != 'assignment':
            continue
        lhs = str(s.get('lhs', ''))
        v = s.get('value') or {}
        d = v.get('data') if isinstance(v, dict) else None
        if d is None:
            continue
        if lhs == 'g_last':
            cur = {'i': num(d)}
            calls.append(cur)
            continue
        if cur is None:
            continue
        m = re.match(r'(g_\w+)\[(\d+)l?\]$', lhs)
        if m:
            if int(m.group(2)) == cur['i'] and m.group(1) not in cur:
                cur[m.group(1)] = num(d)
        elif lhs in ('g_cur', 'g_exc_obj') and lhs not in cur:
            cur[lhs] = num(d)
    out = []
    pos = k
    for c in calls:
        if c.get('g_called') != 1:
            continue
        raised = c.get('g_exc_obj', 0) != 0 and not any(o['raise'] for o in out)
        after = c.get('g_cur', pos)
        out.append({'i': c['i'], 'ok': bool(c.get('g_ok', 0)) and not raised, 'adv': max(0, after - pos) if not raised else 0, 'raise': raised})
        if not raised:
            pos = max(pos, after)
    return out


MAIN = r'''
#include <cstdio>
#include <cstdlib>
#include <cstring>
#include <vector>
namespace vf {
struct step { int i; bool ok; size_t adv; bool raise; };
struct call { int i; int a; int m; size_t pos; };
struct stub_exception {};
static std::vector< step > script = { %(script)s };
static size_t next_step = 0;
static std::vector< call > calls;
static const char* base = nullptr;
static bool diverged = false;
template< int I >
template< apply_mode A, rewind_mode M, template< typename... > class Action, template< typename... > class Control, typename ParseInput, typename... States >
bool R< I >::match( ParseInput& in, States&&... )
{
   calls.push_back( { I, A == apply_mode::action ? 1 : 0, M == rewind_mode::optional ? 1 : 0, size_t( in.current() - base ) } );
   if( next_step >= script.size() || script[ next_step ].i != I ) { diverged = true; return false; }
   const step s = script[ next_step++ ];
   if( s.raise ) throw stub_exception();
   if( s.adv > in.size( s.adv ) ) { diverged = true; return false; }
   if( s.adv ) in.bump_in_this_line( s.adv );
   return s.ok;
}
}  // namespace vf
int main()
{
   const size_t n = %(n)d, k = %(k)d;
   char* buf = (char*)malloc( n ? n : 1 ); memset( buf, 'x', n );
   vf::base = buf;
   vf::%(intype)s in( buf, buf + n, "replay" );
   if( k ) in.bump_in_this_line( k );
   const size_t byte0 = in.byte(), line0 = in.line(), col0 = in.column();
   bool ret = false; int pending = 0; int stub_raised = 0;
   try { ret = vf::root_%(root)s( in ); }
   catch( const vf::stub_exception& ) { pending = 1; stub_raised = 1; }
   catch( ... ) { pending = 1; }
   const size_t cur = size_t( in.current() - buf ), consumed = cur - k;
   /* ghost vocabulary rebuilt from the recorded calls */
   int g_called[ 4 ] = { 0, 0, 0, 0 }, g_ok[ 4 ] = { 0, 0, 0, 0 }, g_last = -1; size_t g_len[ 4 ] = { 0, 0, 0, 0 }, g_ncalls[ 4 ] = { 0, 0, 0, 0 }, g_iter = 0, g_pos = k;
   int g_c[ 4 ] = { %(gc)s };
   for( size_t j = 0; j < vf::calls.size() && j < vf::script.size(); ++j ) {
      const int i = vf::calls[ j ].i; if( i < 0 || i > 3 ) continue;
      g_called[ i ] = 1; ++g_ncalls[ i ]; g_last = i; g_ok[ i ] = vf::script[ j ].ok; g_len[ i ] = vf::script[ j ].adv; g_pos = vf::calls[ j ].pos + vf::script[ j ].adv; if( vf::script[ j ].ok ) ++g_iter;
   }
   std::printf( "NATIVE ret=%%d consumed=%%zu pending=%%d calls=", (int)ret, consumed, pending );
   for( const auto& c : vf::calls ) std::printf( "R%%d<A%%d,M%%d>@%%zu ", c.i, c.a, c.m, c.pos );
   std::printf( "script=%%zu used=%%zu diverged=%%d\n", vf::script.size(), vf::next_step, (int)vf::diverged );
   (void)byte0; (void)line0; (void)col0; (void)stub_raised; (void)g_last; (void)g_iter; (void)g_pos; (void)g_c;
%(check)s
   return 0;
}
'''

CLAUSE = r'''
   {
      const size_t g_e_off = k;
      struct { int pending; } vf_exc = { pending };
      const bool RET = ret;
#define CONSUMED(in) consumed
#define OFF(x) (x)
#define CUR(in) cur
#define ITER_UNCHANGED(in) (consumed == 0 && in_.byte() == byte0 && in_.line() == line0 && in_.column() == col0)
#define MONO(in) (cur >= k)
#define STUB_RAISED (stub_raised != 0)
#define BOOL01(x) ((x) == 0 || (x) == 1)
      auto& in_ = in;
      const bool holds = ( %(clause)s );
      std::printf( "CLAUSE %%s\n", holds ? "HOLDS" : "FAILED" );
   }
'''


def comb_replay(job, rec, mod, info, res, trace):
    w = rec.get('witness') or {}
    if 'w_n' not in w:
        return {'reproduced': False, 'note': 'trace carries no witness'}
    n, k = num(w.get('w_n')), num(w.get('w_k'))
    script = stub_calls(trace, k)
    tu = split_root(mod.tu(), job.root)
    if tu is None:
        return {'reproduced': False, 'note': 'root not found in TU'}
    from common import INPUT_TYPES
    tr = 'lazy' if job.name.endswith('_l') else 'eager'
    intype = INPUT_TYPES[(tr, 'lf_crlf')]
    ob = rec.get('obligation') or ''
    want_call = None
    check = ''
    m = re.match(r'(\w+)\.precondition\.(\d+)$', ob)
    if m and m.group(1) in info['functions']:
        import common
        ps = common.parse_stub(info['functions'][m.group(1)])
        if ps is None:
            return {'reproduced': False, 'note': 'failing callee is not an oracle sub-rule'}
        want_call = ps
    else:
        m2 = re.match(r'(\w+)\.postcondition\.(\d+)$', ob)
        con = (res.get('contracts') or {}).get(m2.group(1)) if m2 else None
        c = con.nth('ensures', int(m2.group(2))) if con is not None else None
        if c is None:
            return {'reproduced': False, 'note': 'obligation is neither a stub precondition nor a postcondition of the entry'}
        check = CLAUSE % {'clause': implies_to_cpp(re.sub(r'\bin\b', 'in', c.text))}
    gc = ', '.join(str(1 if num(w.get('g_c[%dl]' % i)) else 0) for i in range(4))
    src = tu + MAIN % {'script': ', '.join('{ %d, %s, %d, %s }' % (s['i'], 'true' if s['ok'] else 'false', s['adv'], 'true' if s['raise'] else 'false') for s in script),
                       'n': n, 'k': k, 'intype': intype, 'root': job.root, 'gc': gc, 'check': check}
    d = os.path.join(WORK, 'replay', job.name + '_' + re.sub(r'\W+', '_', ob)[-40:])
    shutil.rmtree(d, ignore_errors=True)
    os.makedirs(d, exist_ok=True)
    cpp = os.path.join(d, 'replay.cpp')
    open(cpp, 'w').write(src)
    exe = os.path.join(d, 'replay')
    p = subprocess.run(['clang++', '-std=c++17', '-O1', '-g', '-fsanitize=address,undefined', '-fno-sanitize-recover=undefined',
                        '-I', INCLUDE, '-I', os.path.join(VERIF, 'contracts'), cpp, '-o', exe], capture_output=True, text=True)
    if p.returncode != 0:
        return {'reproduced': False, 'note': 'clause or group not replayable natively (replay program does not compile)', 'stderr': p.stderr[-800:], 'script': script}
    env = dict(os.environ); env['ASAN_OPTIONS'] = 'detect_leaks=0'
    try:
        r = subprocess.run([exe], capture_output=True, text=True, env=env, timeout=60)
    except subprocess.TimeoutExpired:
        return {'reproduced': False, 'note': 'native replay timed out', 'script': script}
    out = r.stdout + r.stderr
    try:
        os.remove(exe)
    except OSError:
        pass
    native = re.search(r'NATIVE (.*)', out)
    calls = re.findall(r'R(\d)<A(\d),M(\d)>@(\d+)', native.group(1) if native else '')
    san = 'AddressSanitizer' in out or 'runtime error' in out
    reproduced = False
    how = ''
    if want_call is not None:
        idx = len(script)
        if len(calls) > idx:
            ci, ca, cm, cpos = int(calls[idx][0]), int(calls[idx][1]), int(calls[idx][2]), int(calls[idx][3])
            same = (ci, ca, cm) == tuple(want_call)
            tag = rec.get('tag', '')
            g_turn, g_pos, g_done = num(w.get('g_turn'), -99), num(w.get('g_pos'), -1), num(w.get('g_done'))
            if tag in ('stub-apply-mode', 'stub-rewind-mode', 'stub-unexpected-subrule') or tag.startswith('stub-called-with'):
                breach = True          # the instantiation itself (sub-rule index / apply mode / rewind mode / classes) is what the contract forbids
            elif tag == 'stub-order-and-position':
                breach = (g_turn != ci) or (cpos != g_pos) or (g_done != 0)     # automaton state after the scripted outcomes vs. the call the real code makes
            elif tag == 'stub-at-entry-iterator':
                breach = cpos != k
            else:
                breach = None
            reproduced = bool(same and breach)
            how = 'after the scripted outcomes the real code calls R<%d> with apply_mode=%d rewind_mode=%d at offset %d (offending call of the counterexample: R<%d>, %d, %d; automaton expects turn %d at offset %d)%s' % (
                ci, ca, cm, cpos, want_call[0], want_call[1], want_call[2], g_turn, g_pos, '' if breach is not None else '; precondition kind %s has no native criterion' % tag)
        else:
            how = 'the real code made no further call after the scripted outcomes'
    else:
        reproduced = 'CLAUSE FAILED' in out
        how = 'clause evaluated natively: %s' % ('FAILED' if reproduced else ('HOLDS' if 'CLAUSE HOLDS' in out else 'not evaluated'))
    if san:
        reproduced = True
        how += '; sanitizer report'
    return {'reproduced': reproduced, 'kind': 'stub-playback', 'script': script, 'native': native.group(0) if native else out[-400:], 'how': how,
            'window_size': n, 'cursor_offset': k, 'program': cpp}
