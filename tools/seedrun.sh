#!/bin/bash
# applies every seeded change to /repo in turn (git apply), runs the check of the property it breaks, reverts.
# writes seeded/<id>/result.txt ; prints one line per seed
cd /verif
for d in /verif/seeded/*/; do
  id=$(basename $d)
  prop=$(python3 -c "import json; print(json.load(open('$d/meta.json'))['property'])" 2>/dev/null || echo ${id%%-*})
  if ! git -C /repo apply --check $d/patch.diff 2>/dev/null; then echo "SEED $id: patch does not apply to the current /repo" | tee $d/result.txt; continue; fi
  git -C /repo apply $d/patch.diff
  out=$(python3 tools/vf.py check $prop 2>&1); rc=$?
  git -C /repo checkout -- .
  { echo "seed=$id property=$prop exit=$rc"; echo "$out" | grep -E "^VIOLATION" | head -5 | cut -c1-400; echo "$out" | tail -1; } > $d/result.txt
  echo "SEED $id $prop exit=$rc $(echo "$out" | grep -c '^VIOLATION') violations $(echo "$out" | grep -c '^UNDECIDED') undecided"
done
