#!/bin/bash
# applies every seeded change to /repo in turn (git apply), runs the check of the property it breaks (and of the properties
# listed under "also_check" in its meta.json), reverts.  writes seeded/<id>/result.txt ; prints one line per seed.
# usage: seedrun.sh [seed-id ...]      (default: all)        NOTHING else may use /repo or edit tools/ contracts/ meanwhile
cd /verif
ids="$@"; [ -z "$ids" ] && ids=$(ls /verif/seeded)
for id in $ids; do
  d=/verif/seeded/$id
  props=$(python3 -c "import json; m=json.load(open('$d/meta.json')); print(' '.join([m['property']] + m.get('also_check', [])))" 2>/dev/null || echo ${id%%-*})
  if ! git -C /repo apply --check $d/patch.diff 2>/dev/null; then echo "SEED $id: patch does not apply to the current /repo" | tee $d/result.txt; continue; fi
  git -C /repo apply $d/patch.diff
  : > $d/result.txt
  for prop in $props; do
    out=$(python3 tools/vf.py check $prop 2>&1); rc=$?
    { echo "seed=$id property=$prop exit=$rc"; echo "$out" | grep -E "^VIOLATION" | head -5 | cut -c1-400; echo "$out" | grep -E "^UNDECIDED" | head -3 | cut -c1-300; echo "$out" | tail -1; } >> $d/result.txt
    echo "SEED $id $prop exit=$rc $(echo "$out" | grep -c '^VIOLATION') violations ($(echo "$out" | grep '^VIOLATION' | grep -vc 'no-failing-input-found') replayed natively) $(echo "$out" | grep -c '^UNDECIDED') undecided"
  done
  git -C /repo checkout -- .
done
