#!/usr/bin/env python3
"""cxx2c -- mechanical lowering of instantiated PEGTL function bodies (clang 14
JSON AST) to C11 for CBMC.  See DESIGN.md section 3.2 for the rules and for
exactly what is dropped.  Any AST node outside the supported set raises
Unsupported (the caller turns that into exit 2, never into a verdict)."""
import re, sys, os, json, subprocess
from cxxast import (AST, Unsupported, RECORD_KINDS, FUNC_KINDS, load_json,
                    split_top, parse_type, strip_cv, sanitize, short_hash)

BUILTIN = {
    'void': 'void', 'bool': '_Bool', 'char': 'char', 'signed char': 'signed char',
    'unsigned char': 'unsigned char', 'short': 'short', 'unsigned short': 'unsigned short',
    'int': 'int', 'unsigned int': 'unsigned int', 'unsigned': 'unsigned int',
    'long': 'long', 'unsigned long': 'unsigned long', 'long long': 'long long',
    'unsigned long long': 'unsigned long long', 'char16_t': 'unsigned short',
    'char32_t': 'unsigned int', 'wchar_t': 'int', 'char8_t': 'unsigned char',
    'float': 'float', 'double': 'double', 'long double': 'long double',
    '__int128': '__int128', 'unsigned __int128': 'unsigned __int128',
    'std::nullptr_t': 'void*', 'nullptr_t': 'void*',
}
STD_NAMES = {
    'size_t': 'unsigned long', 'ptrdiff_t': 'long', 'ssize_t': 'long',
    'uint8_t': 'unsigned char', 'uint16_t': 'unsigned short', 'uint32_t': 'unsigned int',
    'uint64_t': 'unsigned long', 'int8_t': 'signed char', 'int16_t': 'short',
    'int32_t': 'int', 'int64_t': 'long', 'uintptr_t': 'unsigned long', 'intptr_t': 'long',
    'uintmax_t': 'unsigned long', 'intmax_t': 'long',
}
C_LIB_PASSTHRU = {'memcmp', 'memcpy', 'memmove', 'memset', 'strlen',
                  '__builtin_bswap16', '__builtin_bswap32', '__builtin_bswap64',
                  '__builtin_memcmp', '__builtin_memcpy', '__builtin_strlen', 'abort'}
LIFT_NS = ('tao', 'vf')
# library classes whose (inline, header-defined) member functions are lowered like PEGTL code
LIFT_STD_FUNCS = ('std::min', 'std::max')
LIFT_STD_RECORDS = ('std::basic_string_view', 'std::numeric_limits', 'std::char_traits', 'std::initializer_list')
SIGNED_C = {'char', 'signed char', 'short', 'int', 'long', 'long long', '__int128'}


class Ctx:
    """per-function lowering context"""

    def __init__(self, fn, cname):
        self.fn = fn
        self.cname = cname
        self.pre = []          # pending pre-statements for the current full expression
        self.tmp = 0
        self.scopes = []       # list of scopes: each a dict(kind, dtors=[(cexpr, recid)])
        self.loop_ord = 0
        self.ret_ctype = 'void'
        self.sret = False
        self.nothrow = False
        self.try_stack = []    # labels of enclosing catch dispatchers
        self.lbl = 0
        self.varnames = {}     # decl id -> C name
        self.used_names = set()
        self.post = []         # temporaries to destroy at the end of the full expression

    def nothrow_ctx(self):
        return self.nothrow and not self.try_stack

    def newtmp(self, hint='t'):
        self.tmp += 1
        return '_%s%d' % (hint, self.tmp)

    def newlbl(self, hint='L'):
        self.lbl += 1
        return '_%s%d' % (hint, self.lbl)


class LowerBase:
    def __init__(self, ast, exc_model=True):
        self.ast = ast
        self.rec_names = {}      # record id -> struct tag
        self.rec_order = []      # emission order (dependencies first)
        self.rec_done = set()
        self.rec_emitting = set()
        self.rec_text = {}
        self.fn_names = {}       # function key -> C name
        self.fn_nodes = {}       # C name -> node
        self.fn_work = []
        self.fn_text = {}
        self.fn_proto = {}
        self.fn_info = {}        # C name -> dict(pretty, mangled, params, loops,...)
        self.globals_text = {}
        self.global_names = {}
        self.exc_types = {}      # printed type -> id
        self.maythrow_cache = {}
        self.enum_cache = {}
        self.used_cnames = set()
        self.string_lits = {}
        self.cur_calls = None
        self.warnings = []

    # ================================================================= types
    def err(self, n, msg):
        raise Unsupported('%s: %s [%s %s]' % (self.ast.loc(n), msg, n.get('kind'), n.get('id')))

    def resolve_base(self, base, ctx_node):
        """base type name -> ('c', ctype) | ('rec', id) | ('enum', id)"""
        b = base.strip()
        if '(lambda at ' in b:
            # closures of one source location (and the specialisations over them) print alike in every instantiation of the
            # enclosing template: take the one that belongs to the code being lowered
            mloc = re.search(r'\(lambda at [^)]*\)', b)
            cid = self.ast.ctx_closure(mloc.group(0), ctx_node) if (mloc and ctx_node is not None) else None
            if b.startswith('(lambda at ') and b == mloc.group(0):
                rid = cid or self.ast.lambda_by_type.get(b)
                if rid is None:
                    raise Unsupported('closure type %s not found' % b)
                return ('rec', rid)
            if cid is not None:
                tname = b.split('<')[0].split('::')[-1].strip()
                cands = [sid for (nm, sid, c) in self.ast.specs_over_closures if nm == tname and c == cid and self.ast.node(sid).get('completeDefinition')]
                if len(cands) == 1:
                    return ('rec', cands[0])
        if 'type-parameter-' in b:
            # member typedef named through the (dependent-looking) printed form of a partial specialisation:
            # resolve the member name in the context of the instantiation instead
            parts = [x.replace('\x00', '::') for x in split_top(b.replace('::', '\x00'), '\x00')]
            b = parts[-1]
        if b in BUILTIN:
            return ('c', BUILTIN[b])
        bb = b[5:] if b.startswith('std::') else b
        if bb in STD_NAMES:
            return ('c', STD_NAMES[bb])
        if b in self.ast.typemap:
            did = self.ast.typemap[b]
            n = self.ast.node(did)
            if n.get('kind') == 'EnumDecl':
                return ('enum', did)
            return ('rec', did)
        td = self.lookup_typedef(b, ctx_node)
        if td is not None:
            ts = self.ast.tstr(td['type'])
            if ts == b:
                raise Unsupported('typedef loop on ' + b)
            bs, suf = parse_type(ts)
            if suf:
                return ('alias', ts, td)
            return self.resolve_base(bs, td)
        nb = self.normalize_tname(b)
        if nb != b:
            return self.resolve_base(nb, ctx_node)
        if '<' not in b:
            cands = set(i for k, i in self.ast.typemap.items() if k.endswith('::' + b))
            if len(cands) == 1:
                did = cands.pop()
                return ('enum', did) if self.ast.node(did).get('kind') == 'EnumDecl' else ('rec', did)
        else:
            # template-id printed with partially qualified names (sugar only, no desugared form in the dump): compare with the
            # known records after dropping every namespace qualifier; accepted only when exactly one record matches
            strip = lambda t: re.sub(r'\b(?:[A-Za-z_]\w*::)+', '', t).replace(' ', '')
            sb = strip(b)
            cands = set(i for k, i in self.ast.typemap.items() if '<' in k and strip(k) == sb)
            if len(cands) == 1:
                did = cands.pop()
                return ('enum', did) if self.ast.node(did).get('kind') == 'EnumDecl' else ('rec', did)
        raise Unsupported('unresolved type %r (context %s)' % (b, self.ast.loc(ctx_node) if ctx_node else '?'))

    def normalize_tname(self, b):
        # clang prints enum template arguments in two ways
        nb = re.sub(r'\((tao::pegtl::)?rewind_mode\)(false|0)', 'tao::pegtl::rewind_mode::required', b)
        nb = re.sub(r'\((tao::pegtl::)?rewind_mode\)(true|1)', 'tao::pegtl::rewind_mode::optional', nb)
        nb = re.sub(r'\((tao::pegtl::)?apply_mode\)(false|0)', 'tao::pegtl::apply_mode::nothing', nb)
        nb = re.sub(r'\((tao::pegtl::)?apply_mode\)(true|1)', 'tao::pegtl::apply_mode::action', nb)
        nb = re.sub(r'\((tao::pegtl::)?tracking_mode\)(false|0)', 'tao::pegtl::tracking_mode::eager', nb)
        nb = re.sub(r'\((tao::pegtl::)?tracking_mode\)(true|1)', 'tao::pegtl::tracking_mode::lazy', nb)
        return nb

    def lookup_typedef(self, name, ctx_node):
        parts = [x.replace('\x00', '::') for x in split_top(name.replace('::', '\x00'), '\x00')] if '::' in name else [name]
        last = parts[-1]
        cands = self.ast.typedef_by_name.get(last)
        if not cands:
            return None
        prefix = '::'.join(parts[:-1])
        chain = self.ast.scope_chain(ctx_node) if ctx_node is not None else []
        chain_ids = []
        for s in chain:
            chain_ids.append(s.get('id'))
            if s.get('kind') in RECORD_KINDS:
                for bid in self.all_bases(s):
                    chain_ids.append(bid)
        chain_ns = [self.ast.qualname(s) for s in chain if s.get('kind') == 'NamespaceDecl']
        best = None
        for td in cands:
            p = self.ast.sem_parent(td)
            if p is None:
                continue
            pk = p.get('kind')
            if prefix:
                if pk == 'NamespaceDecl':
                    q = self.ast.qualname(p)
                    if q == prefix or q.endswith('::' + prefix):
                        return td
                elif pk in RECORD_KINDS:
                    rid = self.ast.typemap.get(prefix) or self.ast.typemap.get(self.normalize_tname(prefix))
                    if rid is not None and (rid == p.get('id') or p.get('id') in self.all_bases(self.ast.node(rid))):
                        return td
                    if rid is None and self.ast.qualname(p).endswith(prefix) and p.get('kind') == 'CXXRecordDecl':
                        return td
            else:
                if pk in RECORD_KINDS or pk in FUNC_KINDS or pk == 'CompoundStmt' or pk == 'DeclStmt':
                    if p.get('id') in chain_ids:
                        idx = chain_ids.index(p.get('id'))
                        if best is None or idx < best[0]:
                            best = (idx, td)
                elif pk == 'NamespaceDecl':
                    q = self.ast.qualname(p)
                    if q in chain_ns:
                        idx = 1000 + chain_ns.index(q)
                        if best is None or idx < best[0]:
                            best = (idx, td)
                elif pk == 'TranslationUnitDecl':
                    if best is None:
                        best = (5000, td)
        return best[1] if best else None

    def all_bases(self, rec):
        out = []
        for b in self.ast.bases(rec):
            ts = self.ast.tstr(b['type'])
            try:
                r = self.resolve_base(strip_cv(ts), rec)
            except Unsupported:
                continue
            if r[0] == 'rec':
                out.append(r[1])
                out.extend(self.all_bases(self.ast.record_def(r[1])))
        return out

    def tinfo(self, tstr, ctx_node):
        """-> dict(kind='c'|'rec'|'enum', c=<C type of base>, suf=[...], rec=id)"""
        base, suf = parse_type(tstr)
        if self.has_top_paren(base) and not base.startswith('decltype') and not base.startswith('(lambda at '):
            # function / pointer-to-function type: opaque
            return {'kind': 'c', 'c': 'void', 'suf': ['*'], 'rec': None, 'fn': True}
        try:
            r = self.resolve_base(base, ctx_node)
        except Unsupported:
            if suf and suf[-1] in ('*',) and '<' in base:
                # pointer to a class type that is never looked into (tag-dispatch arguments): opaque pointer
                return {'kind': 'c', 'c': 'void', 'suf': suf, 'rec': None}
            raise
        if r[0] == 'alias':
            inner = self.tinfo(r[1], r[2])
            inner = dict(inner); inner['suf'] = inner['suf'] + suf
            return inner
        if r[0] == 'c':
            return {'kind': 'c', 'c': r[1], 'suf': suf, 'rec': None}
        if r[0] == 'enum':
            return {'kind': 'enum', 'c': self.enum_ctype(r[1]), 'suf': suf, 'rec': None, 'enum': r[1]}
        return {'kind': 'rec', 'c': 'struct ' + self.rec_tag(r[1]), 'suf': suf, 'rec': r[1]}

    def has_top_paren(self, s):
        depth = 0
        for c in s:
            if c in '<[':
                depth += 1
            elif c in '>]':
                depth -= 1
            elif c == '(' and depth == 0:
                return True
        return False

    def ctype(self, tstr, ctx_node, name=None):
        """C declaration text for an entity of the given C++ type."""
        ti = self.tinfo(tstr, ctx_node)
        return self.decl_of(ti, name)

    def decl_of(self, ti, name=None):
        s = ti['c']
        arr = ''
        for x in ti['suf']:
            if x in ('*', '&', '&&'):
                s += '*'
            else:
                arr += x
        if ti['kind'] == 'rec' and not any(x in ('*', '&', '&&') for x in ti['suf']):
            self.need_record(ti['rec'])
        if name is None:
            return s + arr
        return '%s %s%s' % (s, name, arr)

    def is_ref(self, tstr):
        _, suf = parse_type(tstr)
        return bool(suf) and suf[-1] in ('&', '&&')

    def enum_ctype(self, eid):
        e = self.ast.node(eid)
        ut = e.get('fixedUnderlyingType')
        if ut:
            return self.ctype(self.ast.tstr(ut), e)
        return 'int'

    def enum_value(self, ecd):
        """value of an EnumConstantDecl"""
        eid = ecd['id']
        if eid in self.enum_cache:
            return self.enum_cache[eid]
        en = self.ast.parent[eid]
        v = -1
        for c in en.get('inner', []):
            if c.get('kind') != 'EnumConstantDecl':
                continue
            val = None
            for x in c.get('inner', []):
                val = self.const_value(x)
            v = (v + 1) if val is None else val
            self.enum_cache[c['id']] = v
        return self.enum_cache[eid]

    def const_value(self, e):
        k = e.get('kind')
        if k == 'ConstantExpr' and 'value' in e:
            return self.parse_const(e['value'])
        if k == 'IntegerLiteral':
            return int(e['value'])
        if k == 'CXXBoolLiteralExpr':
            return 1 if e['value'] else 0
        if k == 'CharacterLiteral':
            return int(e['value'])
        if k in ('ImplicitCastExpr', 'ParenExpr', 'ConstantExpr', 'CStyleCastExpr', 'CXXStaticCastExpr',
                 'CXXFunctionalCastExpr', 'ExprWithCleanups'):
            v = self.const_value(e['inner'][0])
            if v is None:
                return None
            return self.wrap_to_type(v, e)
        if k == 'SubstNonTypeTemplateParmExpr':
            return self.const_value(e['inner'][-1])
        if k == 'SizeOfPackExpr':
            try:
                return self.pack_size(e)
            except Unsupported:
                return None
        if k in ('CXXNoexceptExpr', 'TypeTraitExpr') and 'value' in e:
            return 1 if e['value'] else 0
        if k in ('DeclRefExpr', 'MemberExpr'):
            did = e['referencedDecl']['id'] if k == 'DeclRefExpr' else e.get('referencedMemberDecl')
            d = self.ast.byid.get(did)
            if d is None:
                return None
            if d.get('kind') == 'EnumConstantDecl':
                return self.enum_value(d)
            if d.get('kind') in ('VarDecl', 'VarTemplateSpecializationDecl') and (d.get('constexpr') or 'const ' in d['type']['qualType'] or d['type']['qualType'].startswith('const')):
                if did in self._cv_busy:
                    return None
                self._cv_busy.add(did)
                try:
                    for c in d.get('inner', []):
                        if 'valueCategory' in c:
                            return self.const_value(c)
                finally:
                    self._cv_busy.discard(did)
            return None
        if k == 'UnaryOperator':
            v = self.const_value(e['inner'][0])
            if v is None:
                return None
            op = e['opcode']
            if op == '!':
                return 0 if v else 1
            if op == '-':
                return self.wrap_to_type(-v, e)
            if op == '~':
                return self.wrap_to_type(~v, e)
            if op == '+':
                return v
            return None
        if k == 'BinaryOperator':
            a = self.const_value(e['inner'][0])
            op = e['opcode']
            if a is not None and op == '&&' and not a:
                return 0
            if a is not None and op == '||' and a:
                return 1
            b = self.const_value(e['inner'][1])
            if a is None or b is None:
                return None
            try:
                r = {'+': lambda: a + b, '-': lambda: a - b, '*': lambda: a * b,
                     '==': lambda: int(a == b), '!=': lambda: int(a != b), '<': lambda: int(a < b),
                     '<=': lambda: int(a <= b), '>': lambda: int(a > b), '>=': lambda: int(a >= b),
                     '&&': lambda: int(bool(a) and bool(b)), '||': lambda: int(bool(a) or bool(b)),
                     '&': lambda: a & b, '|': lambda: a | b, '^': lambda: a ^ b,
                     '<<': lambda: a << b, '>>': lambda: a >> b}[op]()
            except KeyError:
                return None
            return self.wrap_to_type(r, e)
        if k == 'ConditionalOperator':
            c = self.const_value(e['inner'][0])
            if c is None:
                return None
            return self.const_value(e['inner'][1] if c else e['inner'][2])
        return None

    _cv_busy = set()

    def wrap_to_type(self, v, e):
        try:
            ti = self.tinfo(self.ast.tstr(e['type']), e)
        except Unsupported:
            return None
        if ti['suf'] or ti['kind'] == 'rec':
            return None
        c = ti['c']
        bits = {'_Bool': 1, 'char': 8, 'signed char': 8, 'unsigned char': 8, 'short': 16, 'unsigned short': 16,
                'int': 32, 'unsigned int': 32, 'long': 64, 'unsigned long': 64, 'long long': 64,
                'unsigned long long': 64}.get(c)
        if bits is None:
            return None
        if c == '_Bool':
            return 1 if v else 0
        v &= (1 << bits) - 1
        if c in SIGNED_C and v >= (1 << (bits - 1)):
            v -= (1 << bits)
        return v

    def parse_const(self, v):
        if v == 'true':
            return 1
        if v == 'false':
            return 0
        try:
            return int(v)
        except ValueError:
            return None

    # =============================================================== records
    def rec_tag(self, rid):
        rid = self.ast.record_def(rid)['id']
        if rid in self.rec_names:
            return self.rec_names[rid]
        n = self.ast.node(rid)
        nm = n.get('name') or 'anon'
        if n.get('kind') == 'CXXRecordDecl' and not n.get('name'):
            nm = 'lambda'
        key = self.rec_pretty(rid)
        tag = 'S_%s_%s' % (sanitize(nm), short_hash(key, 6))
        self.rec_names[rid] = tag
        return tag

    def rec_pretty(self, rid):
        best = None
        for s, i in self.ast.typemap.items():
            if i == rid and (best is None or (len(s), s) > (len(best), best)):
                best = s
        if best is None:
            n = self.ast.node(rid)
            best = self.ast.qualname(n) + '@' + self.ast.loc(n)
            # closure types of different instantiations of one template share a C struct when their captures agree
            if self.is_lambda(n):
                best += '[' + ', '.join(self.ast.tstr(f['type']) for f in self.ast.fields(n)) + ']'
        if rid in self.ast.spec_closure:
            # specialisation over a closure type: one C struct per capture signature of that closure
            best += '{' + self.rec_pretty(self.ast.spec_closure[rid]) + '}'
        return best

    def need_record(self, rid):
        rid = self.ast.record_def(rid)['id']
        if rid in self.rec_done:
            return
        if rid in self.rec_emitting:
            raise Unsupported('recursive by-value record ' + self.rec_pretty(rid))
        self.rec_emitting.add(rid)
        n = self.ast.node(rid)
        if self.model_record(rid):
            text = self.model_struct(rid)
            tag = self.rec_tag(rid)
            for orid, otext in self.rec_text.items():
                if self.rec_names.get(orid) == tag:
                    if otext != text:
                        raise Unsupported('two different modelled records lower to the same tag %s' % tag)
                    self.rec_done.add(rid); self.rec_emitting.discard(rid)
                    return
            self.rec_text[rid] = text
            self.rec_order.append(rid); self.rec_done.add(rid); self.rec_emitting.discard(rid)
            return
        if not n.get('completeDefinition') or (self.rec_is_external(rid) and not self.model_record(rid)):
            # opaque: external type (std::string etc.); modelled as an opaque blob
            tag = self.rec_tag(rid)
            self.rec_text[rid] = 'struct %s { char _opaque[64]; }; /* opaque library type: %s */' % (tag, self.rec_pretty(rid))
            self.rec_order.append(rid); self.rec_done.add(rid); self.rec_emitting.discard(rid)
            return
        lines = []
        bi = 0
        for b in self.ast.bases(n):
            ts = self.ast.tstr(b['type'])
            ti = self.tinfo(ts, n)
            lines.append('  %s;' % self.decl_of(ti, '_b%d' % bi))
            bi += 1
        lam_inits = None
        if self.is_lambda(n):
            lam = self.ast.parent.get(n['id'])
            if lam is not None and lam.get('kind') == 'LambdaExpr':
                lam_inits = [c for c in lam.get('inner', [])[1:] if c.get('kind') not in ('CompoundStmt',)]
        for fi_, f in enumerate(self.ast.fields(n)):
            ts = self.ast.tstr(f['type'])
            try:
                ti = self.tinfo(ts, n)
            except Unsupported:
                # capture field printed with partially qualified sugar: take the type of the captured entity
                if lam_inits is None or fi_ >= len(lam_inits):
                    raise
                its = self.ast.tstr(lam_inits[fi_]['type'])
                if ts.rstrip().endswith('&'):
                    its += ' &'
                ti = self.tinfo(its, lam_inits[fi_])
            fname = self.field_cname(f)
            lines.append('  %s;' % self.decl_of(ti, fname))
        if not lines:
            lines.append('  char _empty;')
        tag = self.rec_tag(rid)
        text = 'struct %s { /* %s */\n%s\n};' % (tag, self.rec_pretty(rid), '\n'.join(lines))
        for orid, otext in self.rec_text.items():
            if self.rec_names.get(orid) == tag:
                if otext != text:
                    raise Unsupported('two different records lower to the same tag %s' % tag)
                # same printed type, same layout (closure types of different instantiations): one C struct
                self.rec_done.add(rid); self.rec_emitting.discard(rid)
                return
        self.rec_text[rid] = text
        self.rec_order.append(rid)
        self.rec_done.add(rid)
        self.rec_emitting.discard(rid)

    def field_cname(self, f):
        if f.get('name'):
            return f['name']
        rec = self.ast.parent.get(f['id'])
        idx = 0
        for c in (rec or {}).get('inner', []):
            if c.get('kind') == 'FieldDecl':
                if c['id'] == f['id']:
                    break
                idx += 1
        return '_cap%d' % idx

    def rec_is_external(self, rid):
        n = self.ast.record_def(rid)
        if self.ast.qualname(n) in LIFT_STD_RECORDS:
            return False
        return not self.ast.in_namespace(n, LIFT_NS) and not self.is_lambda(n)

    def in_lift(self, d):
        if self.ast.in_namespace(d, LIFT_NS):
            return True
        if d.get('kind') == 'FunctionDecl' and self.ast.qualname(d) in LIFT_STD_FUNCS:
            return True
        rec = self.ast.enclosing_record(d)
        if rec is not None and (self.is_lambda(rec) or self.ast.qualname(rec) in LIFT_STD_RECORDS):
            return True
        return False

    def is_lambda(self, rec):
        return rec.get('kind') == 'CXXRecordDecl' and not rec.get('name') and \
            rec.get('definitionData', {}).get('isLambda', False)

    def rec_trivial_dtor(self, rid):
        n = self.ast.record_def(rid)
        dd = n.get('definitionData', {})
        d = dd.get('dtor', {})
        return bool(d.get('trivial'))

    def rec_by_value(self, rid):
        """may objects of this record be copied as plain C values?"""
        n = self.ast.record_def(rid)
        dd = n.get('definitionData', {})
        if not n.get('completeDefinition'):
            return False
        return bool(dd.get('isTriviallyCopyable')) and self.rec_trivial_dtor(rid) and \
            not self.copy_deleted(n)

    def copy_deleted(self, rec):
        for m in self.ast.methods(rec, ('CXXConstructorDecl',)):
            if m.get('explicitlyDeleted'):
                ps = self.ast.params(m)
                if len(ps) == 1 and ps[0]['type']['qualType'].rstrip().endswith('&'):
                    return True
        return False

    def find_dtor(self, rid):
        rec = self.ast.record_def(rid)
        for m in self.ast.methods(rec, ('CXXDestructorDecl',)):
            return m
        return None

    def base_index(self, rec, base_id):
        """path of _bN member names from rec to (possibly indirect) base."""
        bi = 0
        for b in self.ast.bases(rec):
            ts = self.ast.tstr(b['type'])
            r = self.resolve_base(strip_cv(ts), rec)
            if r[0] == 'rec':
                bdef = self.ast.record_def(r[1])
                if bdef['id'] == base_id:
                    return ['_b%d' % bi]
                sub = self.base_index(bdef, base_id)
                if sub is not None:
                    return ['_b%d' % bi] + sub
            bi += 1
        return None

    # ============================================================= functions
    def fn_key(self, fn):
        return fn.get('mangledName') or fn['id']

    def fn_is_lifted(self, fn):
        d = self.ast.definition(fn)
        if self.ast.body(d) is None and not d.get('explicitlyDefaulted'):
            return False
        return self.in_lift(d)

    def fn_cname(self, fn):
        key = self.fn_key(fn)
        if key in self.fn_names:
            if self.cur_calls is not None:
                self.cur_calls.add(self.fn_names[key])
            return self.fn_names[key]
        d = self.ast.definition(fn)
        nm = d.get('name', 'fn')
        q = self.ast.qualname(d)
        if not self.in_lift(d) and nm in C_LIB_PASSTHRU:
            self.fn_names[key] = nm
            if self.cur_calls is not None:
                self.cur_calls.add(nm)
            return nm
        parts = q.split('::')
        if parts and parts[0] == 'tao':
            parts = parts[2:]
        if parts and parts[0] == 'internal':
            parts = parts[1:]
        base = sanitize('_'.join(parts))
        base = base.replace('operator__', 'op_call').replace('operator', 'op')
        if d.get('kind') == 'CXXConstructorDecl':
            base += '_ctor'
        if d.get('kind') == 'CXXDestructorDecl':
            base = base.replace('_', 'dtor_', 0) + '_dtor'
        base = re.sub(r'_+', '_', base).strip('_')
        cname = '%s_%s' % (base, short_hash(key, 8))
        if self.cur_calls is not None:
            self.cur_calls.add(cname)
        self.fn_names[key] = cname
        self.fn_nodes[cname] = d
        self.fn_work.append(d)
        return cname

    def fn_rettype_str(self, fn):
        qt = fn['type']['qualType']
        # return type = text before the top-level '(' of the parameter list
        depth = 0
        for i, c in enumerate(qt):
            if c in '<[':
                depth += 1
            elif c in '>]':
                depth -= 1
            elif c == '(' and depth == 0:
                return qt[:i].strip()
        return qt

    def fn_nothrow_decl(self, fn):
        qt = fn['type']['qualType'].strip()
        if re.search(r'noexcept(\(true\))?$', qt) or qt.endswith('throw()'):
            return True
        if fn.get('kind') == 'CXXDestructorDecl' and 'noexcept(false)' not in qt:
            return True
        return False

    def fn_may_throw(self, fn):
        d = self.ast.definition(fn)
        key = self.fn_key(d)
        if key in self.maythrow_cache:
            return self.maythrow_cache[key]
        if self.fn_nothrow_decl(d):
            self.maythrow_cache[key] = False
            return False
        if not self.in_lift(d):
            # C library and std:: functions that are kept are treated as non-throwing
            self.maythrow_cache[key] = False
            return False
        body = self.ast.body(d)
        if body is None:
            r = not d.get('explicitlyDefaulted') and not d.get('isImplicit')
            self.maythrow_cache[key] = r
            return r
        self.maythrow_cache[key] = False   # recursion guard (optimistic, then fixed)
        r = self._body_may_throw(d)
        self.maythrow_cache[key] = r
        return r

    def _body_may_throw(self, d):
        stack = [c for c in d.get('inner', []) if c.get('kind') in ('CompoundStmt', 'CXXCtorInitializer')]
        while stack:
            n = stack.pop()
            k = n.get('kind')
            if k == 'CXXThrowExpr':
                return True
            if k == 'IfStmt' and n.get('isConstexpr'):
                # only the live branch counts
                cond = n['inner'][0]
                v = self.const_value(cond)
                kids = n['inner'][1:]
                if v is not None and len(kids) >= 1:
                    live = kids[0] if v else (kids[1] if len(kids) > 1 else None)
                    if live is not None:
                        stack.append(live)
                    continue
            if k == 'CXXTryStmt':
                # a catch-all that does not rethrow would stop exceptions; stay conservative
                pass
            callee = self.callee_decl(n)
            if callee is not None and self.ast.qualname(callee) in ('std::throw_with_nested', 'std::rethrow_exception', 'std::rethrow_if_nested'):
                return True
            if callee is not None and self.fn_may_throw(callee):
                return True
            if k == 'LambdaExpr':
                continue
            for c in n.get('inner', []):
                if isinstance(c, dict):
                    stack.append(c)
        return False

    def callee_decl(self, n):
        k = n.get('kind')
        if k in ('CallExpr', 'CXXMemberCallExpr', 'CXXOperatorCallExpr'):
            c = n['inner'][0]
            while c.get('kind') in ('ImplicitCastExpr', 'ParenExpr'):
                c = c['inner'][0]
            if c.get('kind') == 'DeclRefExpr':
                rid = c['referencedDecl']['id']
                if rid in self.ast.byid and self.ast.byid[rid].get('kind') in FUNC_KINDS:
                    return self.ast.byid[rid]
            if c.get('kind') == 'MemberExpr':
                rid = c.get('referencedMemberDecl')
                if rid in self.ast.byid and self.ast.byid[rid].get('kind') in FUNC_KINDS:
                    return self.ast.byid[rid]
            return None
        if k in ('CXXConstructExpr', 'CXXTemporaryObjectExpr'):
            return self.ctor_of(n, soft=True)
        return None

    def ctor_of(self, e, soft=False):
        ts = self.ast.tstr(e['type'])
        try:
            ti = self.tinfo(ts, e)
        except Unsupported:
            if soft:
                return None
            raise
        if ti['kind'] != 'rec':
            return None
        rec = self.ast.record_def(ti['rec'])
        want = e.get('ctorType', {}).get('qualType')
        cands = self.ast.methods(rec, ('CXXConstructorDecl',))
        # inherited constructors
        for c in cands:
            if c['type']['qualType'] == want:
                return c
        nargs = len([a for a in e.get('inner', [])])
        for c in cands:
            if len(self.ast.params(c)) == nargs and self.strip_ws(c['type']['qualType']) == self.strip_ws(want or ''):
                return c
        if soft:
            return None
        return None

    def strip_ws(self, s):
        return re.sub(r'\s+', '', s)


from cxx2c_expr import ExprMixin
from cxx2c_stmt import StmtMixin
try:
    from cxx2c_models import ModelMixin
except ImportError:
    class ModelMixin:
        pass

RT_HEADER = r"""
/* ---- cxx2c runtime: exception model (DESIGN.md 3.4) ---- */
#include <stddef.h>
#include <string.h>
struct vf_exc_t { int pending; int type; unsigned long obj; unsigned long handled; unsigned long nested_obj; int site;
                  const void* in; size_t off, byte, line, column; };
struct vf_exc_t vf_exc;
unsigned long vf_exc_counter;
"""


class Lowerer(ModelMixin, StmtMixin, ExprMixin, LowerBase):
    def __init__(self, ast):
        LowerBase.__init__(self, ast)
        self.demangled = {}
        self.roots = {}

    def demangle_all(self):
        names = [m for m in self.ast.by_mangled.keys()]
        extra = []
        for n in self.ast.byid.values():
            m = n.get('mangledName')
            if m and m not in self.ast.by_mangled:
                extra.append(m)
        names += extra
        if not names:
            return
        p = subprocess.run(['c++filt'], input='\n'.join(names), capture_output=True, text=True)
        outs = p.stdout.split('\n')
        for m, d in zip(names, outs):
            self.demangled[m] = d

    def find_roots(self, prefix='root_'):
        out = []
        for n in self.ast.byid.values():
            if n.get('kind') == 'FunctionDecl' and n.get('name', '').startswith(prefix) and self.ast.body(n) is not None:
                if self.ast.in_namespace(n, ('vf',)):
                    out.append(n)
        out.sort(key=lambda n: n['name'])
        return out

    def run(self, roots):
        self.demangle_all()
        for r in roots:
            cn = self.fn_cname(r)
            self.roots[r['name']] = cn
        while True:
            while self.fn_work:
                d = self.fn_work.pop()
                self.lower_function(d)
            pending = [rid for rid in list(self.rec_names) if rid not in self.rec_done]
            if not pending:
                break
            for rid in pending:
                self.need_record(rid)

    def isa_table(self):
        """vf_isa(thrown, handler): handler type id matches thrown type id"""
        lines = ['static _Bool vf_isa(int thrown, int handler) {', '  if (thrown == handler) return 1;']
        ids = dict(self.exc_types)
        for hname, hid in getattr(self, 'catch_types', {}).items():
            hrid = self.ast.typemap.get(hname)
            for tname, tid in ids.items():
                if tid == hid:
                    continue
                trid = self.ast.typemap.get(tname)
                if trid is None or hrid is None:
                    continue
                try:
                    bases = self.all_bases(self.ast.record_def(trid))
                except Unsupported:
                    bases = []
                if self.ast.record_def(hrid)['id'] in [self.ast.record_def(b)['id'] for b in bases]:
                    lines.append('  if (thrown == %d && handler == %d) return 1; /* %s is-a %s */' % (tid, hid, tname, hname))
        lines.append('  return 0;')
        lines.append('}')
        return '\n'.join(lines)

    def output(self):
        parts = [RT_HEADER]
        parts.append('/* ---- exception type ids ---- */')
        for t, i in sorted(self.exc_types.items(), key=lambda x: x[1]):
            parts.append('#define VF_EXC_%s %d /* %s */' % (sanitize(t.split('<')[0].split('::')[-1]).upper(), i, t))
        parts.append(self.isa_table())
        parts.append('/* ---- records ---- */')
        for tag in sorted(set(self.rec_names.values())):
            parts.append('struct %s;' % tag)
        for rid in self.rec_order:
            parts.append(self.rec_text[rid])
        # aliases declared in namespace vf
        for t in self.ast.typedefs:
            p = self.ast.sem_parent(t)
            if p is not None and p.get('kind') == 'NamespaceDecl' and p.get('name') == 'vf':
                try:
                    ti = self.tinfo(self.ast.tstr(t['type']), t)
                except Unsupported:
                    continue
                if ti['kind'] == 'rec' and not ti['suf']:
                    rid = self.ast.record_def(ti['rec'])['id']
                    if rid in self.rec_done:
                        parts.append('typedef %s vf_%s;' % (ti['c'], t['name']))
        parts.append('/* ---- globals ---- */')
        for g in self.globals_text.values():
            parts.append(g)
        parts.append('/*@PRELUDE@*/')
        parts.append('/* ---- prototypes ---- */')
        for cn in sorted(self.fn_proto):
            if self.fn_info.get(cn, {}).get('kind') == 'extern':
                continue
            parts.append(self.fn_proto[cn])
        parts.append('/* ---- externals (bodiless in the TU): contracts are woven here ---- */')
        for cn in sorted(self.fn_text):
            if self.fn_info.get(cn, {}).get('kind') == 'extern':
                parts.append(self.fn_text[cn])
        parts.append('/* ---- lowered functions ---- */')
        for cn in sorted(self.fn_text):
            if self.fn_info.get(cn, {}).get('kind') != 'extern':
                parts.append('/*@FN %s@*/\n%s\n/*@ENDFN@*/' % (cn, self.fn_text[cn]))
        return '\n\n'.join(parts) + '\n'

    def info(self):
        recs = {}
        for rid, tag in self.rec_names.items():
            recs[tag] = self.rec_pretty(rid)
        for cn, sid in getattr(self, 'sites', {}).items():
            if cn in self.fn_info:
                self.fn_info[cn]['site_id'] = sid
        return {'functions': self.fn_info, 'roots': self.roots, 'records': recs,
                'exc_types': self.exc_types, 'warnings': self.warnings}


def main():
    import argparse
    ap = argparse.ArgumentParser()
    ap.add_argument('json')
    ap.add_argument('--out', required=True)
    ap.add_argument('--info', required=True)
    ap.add_argument('--roots', default='root_')
    a = ap.parse_args()
    ast = AST(load_json(a.json))
    lw = Lowerer(ast)
    roots = lw.find_roots(a.roots)
    if not roots:
        print('cxx2c: no roots', file=sys.stderr)
        sys.exit(2)
    try:
        lw.run(roots)
    except Unsupported as ex:
        print('cxx2c: UNSUPPORTED: %s' % ex, file=sys.stderr)
        sys.exit(2)
    with open(a.out, 'w') as f:
        f.write(lw.output())
    with open(a.info, 'w') as f:
        json.dump(lw.info(), f, indent=1)
    print('cxx2c: %d functions (%d lifted), %d records' % (
        len(lw.fn_info), sum(1 for v in lw.fn_info.values() if v.get('kind') == 'lifted'), len(lw.rec_order)))


if __name__ == '__main__':
    main()
