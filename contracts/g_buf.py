"""group `buf`: buffer_input as a data structure against an abstract stream view (C07, C03):
require, discard, size, empty, end; cstring_reader."""
from vfcore import R, E, A, Contract, Job, Clause
from common import *

NAME = 'buf'
ASSUMPTIONS = [
    'the reader is an oracle stub: returns 0..length bytes that are the next bytes of the ghost stream (any short-read pattern), 0 only at end of stream',
    'std::unique_ptr<char[]> is a trusted model (only get()); memmove in discard() is an assumed contract (libc)',
    'fread / istream::read / mmap / fstat wrappers and the file inputs are OS behaviour: trusted, not decided',
]

TU_EXTRA = r'''
#include <tao/pegtl/buffer_input.hpp>
#include <tao/pegtl/internal/cstring_reader.hpp>
namespace vf {
struct VReader { std::size_t operator()( char* buffer, const std::size_t length ); };   // opaque reader
using BI = buffer_input< VReader, eol::lf_crlf, const char*, 8 >;
auto root_require(BI& in, std::size_t amount) { return in.require( amount ); }
auto root_discard(BI& in) { return in.discard(); }
auto root_size(BI& in, std::size_t amount) { return in.size( amount ); }
auto root_empty(BI& in) { return in.empty(); }
auto root_creader(internal::cstring_reader& r, char* buffer, std::size_t length) { return r( buffer, length ); }
}
'''


def tu():
    return TU_PROLOGUE + TU_EXTRA


CHUNK = 8
PRE = '''
_Bool vf_canary;
#define MAXB 512
#define CHUNK %d
#define OFF(p) __CPROVER_POINTER_OFFSET(p)
#define OLD(x) __CPROVER_old(x)
#define RET __CPROVER_return_value
/* ghost stream view */
const char* g_S;            /* the stream (an array of g_slen bytes) */
size_t g_slen;              /* its length */
size_t g_spos;              /* stream offset of the next byte the reader will deliver == stream offset of m_end */
int g_eof;                  /* the reader has reported end of stream */
size_t g_k;                 /* ghost probe index into the window */
size_t g_cur_off;           /* ghost: offset of m_current.data inside the buffer (require/size/empty never move it) */
#define BUF(in) ((in)->m_buffer._p)
#define BCUR(in) ((in)->m_current.data)
#define BEND(in) ((in)->m_end)
#define OCC(in) (OFF(BEND(in)) - OFF(BCUR(in)))
#define OCC_OLD(in) (OFF(OLD(BEND(in))) - OFF(OLD(BCUR(in))))
/* shape invariant: buffer <= current <= end <= buffer + maximum, all in the one buffer object of exactly m_maximum bytes */
#define BI_SHAPE(in) (__CPROVER_same_object(BUF(in), BCUR(in)) && __CPROVER_same_object(BUF(in), BEND(in)) && OFF(BUF(in)) == 0 \\
   && OFF(BCUR(in)) <= OFF(BEND(in)) && OFF(BEND(in)) <= (in)->m_maximum && (in)->m_maximum > CHUNK && (in)->m_maximum <= MAXB \\
   && (in)->m_current.line >= 1 && (in)->m_current.column >= 1)
/* content: the window [current, end) is the stream segment that ends at g_spos (stated for the probe index) */
#define BI_CONTENT(in) (g_spos >= OCC(in) && g_spos <= g_slen && (g_k < OCC(in) ==> BCUR(in)[g_k] == g_S[g_spos - OCC(in) + g_k]))
''' % CHUNK


def reader_stub(fi):
    n = [p['name'] for p in fi.get('params', [])]
    buf, ln = n[-2], n[-1]
    return Contract(
        R('%s > 0 && __CPROVER_w_ok(%s, %s) && vf_exc.pending == 0' % (ln, buf, ln), 'reader-gets-a-writable-range-inside-the-buffer', ('C07', 'C03')),
        Clause('assigns', '__CPROVER_object_upto(%s, %s), g_spos, g_eof' % (buf, ln)),
        E('RET <= %s && g_spos == OLD(g_spos) + RET && g_spos <= g_slen && (g_eof == 0 || g_eof == 1)' % ln, 'stub'),
        E('(RET == 0) == (g_eof == 1) && (OLD(g_eof) == 1 ==> RET == 0) && (g_eof == 1 ==> g_spos == g_slen)', 'stub'),
        # the delivered bytes are the next bytes of the stream: stated for the one index the caller's probe needs
        E('(g_cur_off + g_k >= OFF(%s) && g_cur_off + g_k - OFF(%s) < RET) ==> %s[g_cur_off + g_k - OFF(%s)] == g_S[OLD(g_spos) + (g_cur_off + g_k - OFF(%s))]' % (buf, buf, buf, buf, buf), 'stub'),
    )


H = '''
int main(void)
{
  size_t maxi; __CPROVER_assume(maxi > CHUNK && maxi <= MAXB);
  char* buf = malloc(maxi); __CPROVER_assume(buf != 0);
  size_t slen; __CPROVER_assume(slen <= 2 * MAXB); char* S = malloc(slen); __CPROVER_assume(S != 0);
  g_S = S; g_slen = slen;
  vf_BI in; in.m_maximum = maxi; in.m_buffer._p = buf;
  size_t c, e; __CPROVER_assume(c <= e && e <= maxi);
  in.m_current.data = buf + c; in.m_end = buf + e; g_cur_off = c;
  __CPROVER_assume(in.m_current.line >= 1 && in.m_current.column >= 1);
  vf_exc.pending = 0;
  %s
  return 0;
}
'''


REQ_LOOP = {(r'buffer_input<.*>::require\(', 1):
            '__CPROVER_assigns(self->m_end, __CPROVER_object_whole(BUF(self)), g_spos, g_eof)\n'
            '__CPROVER_loop_invariant(BI_SHAPE(self) && BI_CONTENT(self) && BCUR(self) == __CPROVER_loop_entry(BCUR(self)) && BUF(self) == __CPROVER_loop_entry(BUF(self))'
            ' && self->m_maximum == __CPROVER_loop_entry(self->m_maximum) && g_cur_off == OFF(BCUR(self)) && OCC(self) < amount && amount <= self->m_maximum - g_cur_off'
            ' && (g_eof == 0 || g_eof == 1) && (g_eof == 1 ==> g_spos == g_slen) && vf_exc.pending == 0)'}


def jobs(tier):
    out = []
    P = ('C07',)
    pre = '__CPROVER_r_ok(self, sizeof(*self)) && BI_SHAPE(self) && __CPROVER_w_ok(BUF(self), self->m_maximum) && __CPROVER_r_ok(g_S, g_slen) && g_slen <= 2 * MAXB && BI_CONTENT(self)' \
          ' && g_cur_off == OFF(BCUR(self)) && (g_eof == 0 || g_eof == 1) && (g_eof == 1 ==> g_spos == g_slen) && vf_exc.pending == 0 && vf_exc_counter < 1000'
    asg = 'self->m_end, __CPROVER_object_whole(BUF(self)), g_spos, g_eof, vf_exc, vf_exc_counter'
    # require(amount)
    con = Contract(R(pre, 'buffer-invariant'), Clause('assigns', asg),
                   E('BI_SHAPE(self) && BCUR(self) == OLD(BCUR(self)) && BUF(self) == OLD(BUF(self)) && self->m_maximum == OLD(self->m_maximum)', 'REQUIRE-KEEPS-THE-SHAPE-INVARIANT-AND-THE-CURSOR', ('C07', 'C03')),
                   E('BI_CONTENT(self)', 'REQUIRE-WINDOW-IS-THE-STREAM', P),
                   E('!vf_exc.pending ==> (OCC(self) >= amount || g_eof == 1)', 'REQUIRE-DELIVERS-AMOUNT-BYTES-UNLESS-END-OF-STREAM', P),
                   E('vf_exc.pending ==> (vf_exc.type == $EXC{std::overflow_error} && OCC_OLD(self) < amount && amount > OLD(self->m_maximum) - g_cur_off)', 'REQUIRE-ONLY-OVERFLOW-ERROR-WHEN-THE-BUFFER-IS-TOO-SMALL', P),
                   E('vf_canary', 'canary_exit'))
    out.append(Job('bi_require', NAME, 'require', con, ('C07', 'C03'), prelude=PRE, stubs=[(r'vf::VReader::operator\(\)', reader_stub)],
                   harness=H % 'size_t amount; $ENTRY(&in, amount);', expect_fail_canary=('canary_exit',),
                   desc='buffer_input<VReader,lf_crlf,const char*,8>::require(amount): any amount, any reader short-read pattern'))
    # size(amount) / empty(): wrappers over require
    con = Contract(R(pre, 'buffer-invariant'), Clause('assigns', asg),
                   E('BI_SHAPE(self) && BCUR(self) == OLD(BCUR(self)) && BI_CONTENT(self)', 'SIZE-KEEPS-THE-INVARIANT', P),
                   E('!vf_exc.pending ==> (RET == OCC(self) && (RET >= amount || g_eof == 1))', 'SIZE-IS-THE-OCCUPIED-WINDOW-AFTER-REQUIRE', P),
                   E('vf_canary', 'canary_exit'))
    out.append(Job('bi_size', NAME, 'size', con, P, prelude=PRE, stubs=[(r'vf::VReader::operator\(\)', reader_stub)],
                   harness=H % 'size_t amount; $ENTRY(&in, amount);', expect_fail_canary=('canary_exit',), desc='buffer_input::size(amount)'))
    con = Contract(R(pre, 'buffer-invariant'), Clause('assigns', asg),
                   E('BI_SHAPE(self) && BCUR(self) == OLD(BCUR(self)) && BI_CONTENT(self)', 'EMPTY-KEEPS-THE-INVARIANT', P),
                   E('!vf_exc.pending ==> (RET == (OCC(self) == 0) && (RET ==> g_eof == 1))', 'EMPTY-ONLY-AT-END-OF-STREAM', P),
                   E('vf_canary', 'canary_exit'))
    out.append(Job('bi_empty', NAME, 'empty', con, P, prelude=PRE, stubs=[(r'vf::VReader::operator\(\)', reader_stub)],
                   harness=H % '$ENTRY(&in);', expect_fail_canary=('canary_exit',), desc='buffer_input::empty()'))
    # discard(): the buffer algebra only; memmove is replaced by "havoc the destination bytes" (which bytes end up where is libc's
    # contract, not decided here), so the clauses are about pointers, counts and the position
    con = Contract(R(pre, 'buffer-invariant'), Clause('assigns', 'self->m_current.data, self->m_end, __CPROVER_object_whole(BUF(self))'),
                   E('BI_SHAPE(self) && BUF(self) == OLD(BUF(self)) && self->m_maximum == OLD(self->m_maximum)', 'DISCARD-KEEPS-THE-SHAPE-INVARIANT', ('C07', 'C03')),
                   E('OFF(BCUR(self)) <= CHUNK', 'DISCARD-LEAVES-AT-MOST-CHUNK-BYTES-BEFORE-THE-CURSOR-SO-THAT-MAXIMUM-BYTES-OF-LOOK-AHEAD-FIT', P),
                   E('OCC(self) == OCC_OLD(self)', 'DISCARD-KEEPS-THE-NUMBER-OF-UNCONSUMED-BYTES', P),
                   E('self->m_current.byte == OLD(self->m_current.byte) && self->m_current.line == OLD(self->m_current.line) && self->m_current.column == OLD(self->m_current.column)', 'DISCARD-KEEPS-THE-POSITION', ('C07', 'C06')),
                   E('vf_exc.pending == 0', 'DISCARD-NEVER-RAISES', P),
                   E('vf_canary', 'canary_exit'))
    out.append(Job('bi_discard', NAME, 'discard', con, P, stubs=[],
                   prelude=PRE + 'static inline void* vf_memmove(void* d, const void* s, size_t n) { __CPROVER_assert(__CPROVER_r_ok(s, n) && __CPROVER_w_ok(d, n), "repo_assert memmove ranges inside their objects"); if (n) __CPROVER_havoc_slice(d, n); return d; }\n#define memmove vf_memmove\n',
                   harness=H % '$ENTRY(&in);', expect_fail_canary=('canary_exit',), timeout=300,
                   desc='buffer_input::discard(): after it at most Chunk bytes lie before the cursor; count of unconsumed bytes and position unchanged (memmove = havoc of the destination)'))
    return out
