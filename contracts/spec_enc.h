/* spec_enc.h -- specification functions for encodings and positions.
   Written from the Unicode Standard (Table 3-7, D91, D90) and from
   doc/Inputs-and-Parsing.md, NOT from the PEGTL sources.  Plain C, also valid
   C++: included by the CBMC harnesses and by the native replay programs, so
   there is one oracle. */
#ifndef VF_SPEC_ENC_H
#define VF_SPEC_ENC_H
#include <stddef.h>

typedef unsigned char vf_u8;

/* ---- UTF-8: well-formed byte sequences, Unicode Table 3-7 ---- */
static inline int vf_cont(vf_u8 b, vf_u8 lo, vf_u8 hi) { return b >= lo && b <= hi; }

static inline size_t utf8_spec_len(const vf_u8* p, size_t avail)
{
  if (avail < 1) return 0;
  vf_u8 b0 = p[0];
  if (b0 <= 0x7F) return 1;
  if (b0 >= 0xC2 && b0 <= 0xDF) return (avail >= 2 && vf_cont(p[1], 0x80, 0xBF)) ? 2 : 0;
  if (b0 == 0xE0) return (avail >= 3 && vf_cont(p[1], 0xA0, 0xBF) && vf_cont(p[2], 0x80, 0xBF)) ? 3 : 0;
  if ((b0 >= 0xE1 && b0 <= 0xEC) || b0 == 0xEE || b0 == 0xEF)
    return (avail >= 3 && vf_cont(p[1], 0x80, 0xBF) && vf_cont(p[2], 0x80, 0xBF)) ? 3 : 0;
  if (b0 == 0xED) return (avail >= 3 && vf_cont(p[1], 0x80, 0x9F) && vf_cont(p[2], 0x80, 0xBF)) ? 3 : 0;
  if (b0 == 0xF0) return (avail >= 4 && vf_cont(p[1], 0x90, 0xBF) && vf_cont(p[2], 0x80, 0xBF) && vf_cont(p[3], 0x80, 0xBF)) ? 4 : 0;
  if (b0 >= 0xF1 && b0 <= 0xF3) return (avail >= 4 && vf_cont(p[1], 0x80, 0xBF) && vf_cont(p[2], 0x80, 0xBF) && vf_cont(p[3], 0x80, 0xBF)) ? 4 : 0;
  if (b0 == 0xF4) return (avail >= 4 && vf_cont(p[1], 0x80, 0x8F) && vf_cont(p[2], 0x80, 0xBF) && vf_cont(p[3], 0x80, 0xBF)) ? 4 : 0;
  return 0;
}

/* scalar value of the well-formed sequence (defined when utf8_spec_len > 0) */
static inline unsigned utf8_spec_cp(const vf_u8* p, size_t avail)
{
  size_t n = utf8_spec_len(p, avail);
  if (n == 1) return p[0];
  if (n == 2) return ((unsigned)(p[0] - 0xC0) * 64u) + (unsigned)(p[1] - 0x80);
  if (n == 3) return ((unsigned)(p[0] - 0xE0) * 4096u) + ((unsigned)(p[1] - 0x80) * 64u) + (unsigned)(p[2] - 0x80);
  if (n == 4) return ((unsigned)(p[0] - 0xF0) * 262144u) + ((unsigned)(p[1] - 0x80) * 4096u) + ((unsigned)(p[2] - 0x80) * 64u) + (unsigned)(p[3] - 0x80);
  return 0;
}

/* ---- UTF-8 encoder spec (Table 3-6), for C17 ---- */
static inline int vf_is_scalar(unsigned cp) { return cp <= 0x10FFFFu && !(cp >= 0xD800u && cp <= 0xDFFFu); }
static inline size_t utf8_enc_len(unsigned cp)
{
  if (!vf_is_scalar(cp)) return 0;
  if (cp <= 0x7F) return 1;
  if (cp <= 0x7FF) return 2;
  if (cp <= 0xFFFF) return 3;
  return 4;
}
static inline vf_u8 utf8_enc_byte(unsigned cp, size_t i)
{
  size_t n = utf8_enc_len(cp);
  if (n == 1) return (vf_u8)cp;
  if (n == 2) return i == 0 ? (vf_u8)(0xC0 + cp / 64u) : (vf_u8)(0x80 + cp % 64u);
  if (n == 3) return i == 0 ? (vf_u8)(0xE0 + cp / 4096u) : i == 1 ? (vf_u8)(0x80 + (cp / 64u) % 64u) : (vf_u8)(0x80 + cp % 64u);
  if (n == 4) return i == 0 ? (vf_u8)(0xF0 + cp / 262144u) : i == 1 ? (vf_u8)(0x80 + (cp / 4096u) % 64u) : i == 2 ? (vf_u8)(0x80 + (cp / 64u) % 64u) : (vf_u8)(0x80 + cp % 64u);
  return 0;
}

/* ---- UTF-16 / UTF-32 / binary units: byte arithmetic, big and little endian ---- */
static inline unsigned vf_rd16(const vf_u8* p, int be) { return be ? ((unsigned)p[0] * 256u + p[1]) : ((unsigned)p[1] * 256u + p[0]); }
static inline unsigned vf_rd32(const vf_u8* p, int be)
{
  return be ? ((unsigned)p[0] * 16777216u + (unsigned)p[1] * 65536u + (unsigned)p[2] * 256u + p[3])
            : ((unsigned)p[3] * 16777216u + (unsigned)p[2] * 65536u + (unsigned)p[1] * 256u + p[0]);
}
static inline unsigned long vf_rd64(const vf_u8* p, int be)
{
  return be ? (((unsigned long)vf_rd32(p, 1) << 32) | vf_rd32(p + 4, 1))
            : (((unsigned long)vf_rd32(p + 4, 0) << 32) | vf_rd32(p, 0));
}
/* UTF-16 (D91): one unit outside D800..DFFF, or a high surrogate D800..DBFF followed by a low DC00..DFFF */
static inline size_t utf16_spec_len(const vf_u8* p, size_t avail, int be)
{
  if (avail < 2) return 0;
  unsigned t = vf_rd16(p, be);
  if (t < 0xD800u || t > 0xDFFFu) return 2;
  if (t >= 0xDC00u) return 0;
  if (avail < 4) return 0;
  unsigned u = vf_rd16(p + 2, be);
  return (u >= 0xDC00u && u <= 0xDFFFu) ? 4 : 0;
}
static inline unsigned utf16_spec_cp(const vf_u8* p, size_t avail, int be)
{
  size_t n = utf16_spec_len(p, avail, be);
  if (n == 2) return vf_rd16(p, be);
  if (n == 4) return 0x10000u + (vf_rd16(p, be) - 0xD800u) * 1024u + (vf_rd16(p + 2, be) - 0xDC00u);
  return 0;
}
static inline size_t utf32_spec_len(const vf_u8* p, size_t avail, int be)
{
  if (avail < 4) return 0;
  return vf_is_scalar(vf_rd32(p, be)) ? 4 : 0;
}

/* ---- positions (C06): fold of the one-byte step over the consumed bytes ---- */
/* line after consuming n (<= 8) bytes at p */
static inline size_t vf_pos_line(const char* p, size_t n, size_t line, int eolch)
{
  for (size_t i = 0; i < 8; ++i)
    if (i < n && p[i] == eolch) ++line;
  return line;
}
static inline size_t vf_pos_col(const char* p, size_t n, size_t col, int eolch)
{
  for (size_t i = 0; i < 8; ++i)
    if (i < n) { if (p[i] == eolch) col = 1; else ++col; }
  return col;
}
#endif
