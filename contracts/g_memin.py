"""group `memin`: memory_input position / error-reporting helpers (C19, C06): at, begin_of_line,
lazy position(it) (= bump from the beginning, with the initial counters)."""
from vfcore import R, E, A, Contract, Job, Clause
from common import *
import g_pos

NAME = 'memin'
ASSUMPTIONS = ['a position "obtained from this input" is characterised by ghost offsets: p.byte == byte0 + g_k, p.column == col(g_bol, g_k) where g_bol is the start of the line containing offset g_k (no line-ending character in [g_bol, g_k), stated with a ghost probe index)',
               'position::source (std::string) is an opaque library object']

TU_EXTRA = r'''
namespace vf {
template< typename In > const char* f_at( const In& in, const position& p ) { return in.at( p ); }
template< typename In > const char* f_bol( const In& in, const position& p ) { return in.begin_of_line( p ); }
template< typename In > position f_pos( const In& in ) { return in.position(); }
}
'''


def tu_for(tracking):
    it = INPUT_TYPES[(tracking, 'lf_crlf')]
    s = TU_PROLOGUE + TU_EXTRA
    s += 'namespace vf { auto root_at(const %s& in, const position& p) { return in.at( p ); } }\n' % it
    s += 'namespace vf { auto root_bol(const %s& in, const position& p) { return in.begin_of_line( p ); } }\n' % it
    s += 'namespace vf { auto root_pos(const %s& in) { return in.position(); } }\n' % it
    s += 'namespace vf { auto root_eol(const %s& in, const position& p) { return in.end_of_line( p ); } }\n' % it
    s += 'namespace vf { auto root_lineat(const %s& in, const position& p) { return in.line_at( p ); } }\n' % it
    if tracking == 'eager':
        s += 'namespace vf { auto root_lineatcrlf(const InE_crlf& in, const position& p) { return in.line_at( p ); } }\n'
        s += 'namespace vf { auto root_lineatlf(const InE_lf& in, const position& p) { return in.line_at( p ); } }\n'
    if tracking == 'lazy':
        for key, pol in (('eolcc', 'cr_crlf'), ('eollf', 'lf'), ('eolcr', 'cr'), ('eolcrlf', 'crlf')):
            s += 'namespace vf { auto root_%s(const %s& in, const position& p) { return in.end_of_line( p ); } }\n' % (key, INPUT_TYPES[('lazy', pol)])
    if tracking == 'eager':
        s += 'namespace vf { auto root_bolcc(const InE_cr_crlf& in, const position& p) { return in.begin_of_line( p ); } }\n'
        s += 'namespace vf { auto root_eolcc(const InE_cr_crlf& in, const position& p) { return in.end_of_line( p ); } }\n'
        s += 'namespace vf { auto root_eollf(const InE_lf& in, const position& p) { return in.end_of_line( p ); } }\n'
        s += 'namespace vf { auto root_eolcr(const InE_cr& in, const position& p) { return in.end_of_line( p ); } }\n'
        s += 'namespace vf { auto root_eolcrlf(const InE_crlf& in, const position& p) { return in.end_of_line( p ); } }\n'
    return s


SUBGROUPS = {'memin_e': lambda: tu_for('eager'), 'memin_l': lambda: tu_for('lazy')}

PRE = '''
size_t g_k, g_bol, g_byte0, g_col0, g_q;   /* ghost: offset of the position, start of its line, initial counters, probe */
#define EOLCH '\\n'
#define RETP __CPROVER_return_value
'''

EOLSTART_DEF = '''
/* a line ending of the policy lf_crlf starts at offset q of the window */
#define EOLSTART(q) (g_buf[q] == '\\n' || (g_buf[q] == '\\r' && (q) + 1 < g_n && g_buf[(q) + 1] == '\\n'))
'''

# the same for the policies cr_crlf ("\\r" or "\\r\\n": both start with '\\r') and lf
EOLSTART_CC = '''
#define EOLSTART(q) (g_buf[q] == '\\r')
'''
EOLSTART_LF = '''
#define EOLSTART(q) (g_buf[q] == '\\n')
'''
EOLSTART_CR = EOLSTART_CC
EOLSTART_CRLF = '''
#define EOLSTART(q) (g_buf[q] == '\\r' && (q) + 1 < g_n && g_buf[(q) + 1] == '\\n')
'''

# trusted models of the library searches an implementation of end_of_line may use instead of the until<> loop
STD_FIND = Contract(R('__CPROVER_same_object(__first, __last) && OFF(__first) <= OFF(__last) && __CPROVER_same_object(__first, g_buf) && OFF(__last) <= g_n && __CPROVER_r_ok(__val, 1)', 'model-std-find-range'),
                    A(''),
                    E('__CPROVER_same_object(RETP, __first) && OFF(RETP) >= OFF(__first) && OFF(RETP) <= OFF(__last)', 'stub'),
                    E('OFF(RETP) == OFF(__last) || g_buf[OFF(RETP)] == *__val', 'stub'),
                    E('(g_q >= OFF(__first) && g_q < OFF(RETP)) ==> g_buf[g_q] != *__val', 'stub'))
MEMCHR = None

H = '''
#undef PTRS_OK
#define PTRS_OK(in) PTRS_OK_BASE(in)
int main(void)
{
  __CPROVER_assume(g_n <= MAXN);
  char* buf = malloc(g_n); __CPROVER_assume(buf != 0); g_buf = buf;
  %(it)s in; size_t k; __CPROVER_assume(k <= g_n);
  %(setup)s
  struct $REC{tao::pegtl::position} p;
  %(call)s;
  return 0;
}
'''


def jobs(tier):
    out = []
    for tr in ('eager', 'lazy'):
        grp = 'memin_e' if tr == 'eager' else 'memin_l'
        it = 'vf_' + INPUT_TYPES[(tr, 'lf_crlf')]
        if tr == 'eager':
            setup = 'in._b0.m_begin = buf; in._b0.m_end = buf + g_n; in._b0.m_current.data = buf + k; __CPROVER_assume(CNT_OK(&in));'
        else:
            setup = ('in._b0.m_begin.data = buf; in._b0.m_end = buf + g_n; in._b0.m_current = buf + k; in._b0.m_begin.byte = g_byte0; in._b0.m_begin.column = g_col0;'
                     ' __CPROVER_assume(in._b0.m_begin.line >= 1 && in._b0.m_begin.line < ((size_t)1<<62) && g_byte0 < ((size_t)1<<62) && g_col0 >= 1 && g_col0 < ((size_t)1<<62));')
        for variant in ('default', 'offset'):
            init = 'g_byte0 == 0 && g_col0 == 1' if variant == 'default' else 'g_byte0 < ((size_t)1<<62) && g_col0 >= 1 && g_col0 < ((size_t)1<<62)'
            frm = ('__CPROVER_r_ok(self, sizeof(*self)) && g_n <= MAXN && PTRS_OK_BASE(self) && __CPROVER_r_ok(IN_BEGIN(self), g_n) && __CPROVER_r_ok(p, sizeof(*p))'
                   ' && %s && g_k <= g_n && p->byte == g_byte0 + g_k' % init)
            # at()
            con = Contract(R(frm, 'position-from-this-input'), A(''),
                           E('__CPROVER_same_object(RETP, IN_BEGIN(self)) && OFF(RETP) == g_k', 'AT-POINTS-TO-THE-BYTE-OF-THE-POSITION', ('C19',)),
                           E('__CPROVER_same_object(RETP, IN_BEGIN(self)) && OFF(RETP) <= g_n', 'AT-INSIDE-THE-INPUT', ('C19',)),
                           E('vf_canary', 'canary_exit'))
            out.append(Job('at_%s_%s' % (variant, tr[0]), grp, 'at', con, ('C19',), prelude=prelude(tr) + PRE,
                           harness=H % {'it': it, 'setup': setup, 'call': '$ENTRY(&in, &p)'}, expect_fail_canary=('canary_exit',),
                           desc='memory_input<%s>::at(position), initial counters %s' % (tr, variant)))
            # begin_of_line(): line start = offset g_bol: column == (g_bol == 0 ? col0 : 1) + (g_k - g_bol)
            frm2 = frm + (' && g_bol <= g_k && (g_bol == 0 || IN_BEGIN(self)[g_bol - 1] == EOLCH) && ((g_q >= g_bol && g_q < g_k) ==> IN_BEGIN(self)[g_q] != EOLCH)'
                          ' && p->column == (g_bol == 0 ? g_col0 : 1) + (g_k - g_bol)')
            con = Contract(R(frm2, 'position-from-this-input'), A(''),
                           E('__CPROVER_same_object(RETP, IN_BEGIN(self)) && OFF(RETP) == g_bol', 'BEGIN-OF-LINE-IS-THE-START-OF-THE-LINE', ('C19',)),
                           E('__CPROVER_same_object(RETP, IN_BEGIN(self)) && OFF(RETP) <= g_n', 'BEGIN-OF-LINE-INSIDE-THE-INPUT', ('C19',)),
                           E('vf_canary', 'canary_exit'))
            out.append(Job('bol_%s_%s' % (variant, tr[0]), grp, 'bol', con, ('C19',), prelude=prelude(tr) + PRE,
                           harness=H % {'it': it, 'setup': setup, 'call': '$ENTRY(&in, &p)'}, expect_fail_canary=('canary_exit',),
                           desc='memory_input<%s>::begin_of_line(position), initial counters %s' % (tr, variant)))
        # begin_of_line() under the policy cr_crlf (line endings "\r" and "\r\n"; Eol::ch is '\r'): a line starts at offset 0, after a
        # "\r\n", or after a "\r" that is not followed by "\n"; no '\r' between the line start and the position
        if tr == 'eager':
            LS = ('(g_bol == 0 || (g_bol >= 2 && IN_BEGIN(self)[g_bol - 2] == 13 && IN_BEGIN(self)[g_bol - 1] == 10)'
                  ' || (IN_BEGIN(self)[g_bol - 1] == 13 && !(g_bol < g_n && IN_BEGIN(self)[g_bol] == 10)))')
            frm3 = ('__CPROVER_r_ok(self, sizeof(*self)) && g_n <= MAXN && PTRS_OK_BASE(self) && __CPROVER_r_ok(IN_BEGIN(self), g_n) && __CPROVER_r_ok(p, sizeof(*p))'
                    ' && g_byte0 == 0 && g_col0 == 1 && g_k <= g_n && p->byte == g_k && g_bol <= g_k && %s && ((g_q >= g_bol && g_q < g_k) ==> IN_BEGIN(self)[g_q] != 13)'
                    ' && p->column == 1 + (g_k - g_bol)' % LS)
            itc = 'vf_' + INPUT_TYPES[('eager', 'cr_crlf')]
            for nm, bound in (('bol_crcrlf_e', None), ('b_bol_crcrlf_e', 'position at most 8 bytes into the input (a backward scan ends within 9 steps), complete unwinding')):
                con = Contract(R(frm3 + (' && g_k <= 8' if bound else ''), 'position-from-this-input'), A(''),
                               E('__CPROVER_same_object(RETP, IN_BEGIN(self)) && OFF(RETP) == g_bol', 'BEGIN-OF-LINE-IS-THE-START-OF-THE-LINE-UNDER-THE-INPUTS-EOL-POLICY', ('C19',)),
                               E('vf_canary', 'canary_exit'))
                out.append(Job(nm, grp, 'bolcc', con, ('C19',), prelude=prelude(tr) + PRE, unwind=(12 if bound else None), bounded=bound,
                               harness=H % {'it': itc, 'setup': setup + (' __CPROVER_assume(k <= 8);' if bound else ''), 'call': '$ENTRY(&in, &p)'}, expect_fail_canary=('canary_exit',),
                               desc='memory_input<eager, eol::cr_crlf>::begin_of_line(position)' + (' BOUNDED companion (real code, no loop contract)' if bound else '')))
        # end_of_line(): first offset e >= g_k where the line ends under the input's eol policy (lf_crlf: "\n" or "\r\n") or the
        # input ends; the real body builds a lazy sub-input and runs until< at< eolf > > on it (loop contract on that loop)
        frm = ('__CPROVER_r_ok(self, sizeof(*self)) && g_n <= MAXN && PTRS_OK_BASE(self) && __CPROVER_r_ok(IN_BEGIN(self), g_n) && __CPROVER_r_ok(p, sizeof(*p))'
               ' && IN_BEGIN(self) == g_buf && g_byte0 == 0 && g_col0 == 1 && g_k <= g_n && p->byte == g_byte0 + g_k && vf_exc.pending == 0')
        con = Contract(R(frm, 'position-from-this-input'), A('vf_exc, vf_exc_counter'),
                       E('__CPROVER_same_object(RETP, IN_BEGIN(self)) && OFF(RETP) >= g_k && OFF(RETP) <= g_n', 'END-OF-LINE-INSIDE-THE-INPUT-AT-OR-AFTER-THE-POSITION', ('C19', 'C03')),
                       E('OFF(RETP) == g_n || EOLSTART(OFF(RETP))', 'END-OF-LINE-STOPS-AT-A-LINE-ENDING-OR-THE-END-OF-INPUT', ('C19',)),
                       E('(g_q >= g_k && g_q < OFF(RETP)) ==> !EOLSTART(g_q)', 'END-OF-LINE-SKIPS-NO-LINE-ENDING', ('C19',)),
                       E('vf_exc.pending == 0', 'END-OF-LINE-NEVER-RAISES', ('C19',)),
                       E('vf_canary', 'canary_exit'))
        CURL = 'in->_b0.m_current'
        inv = ('__CPROVER_assigns(%(c)s)\n__CPROVER_loop_invariant(__CPROVER_same_object(%(c)s, g_buf) && OFF(%(c)s) >= g_k && OFF(%(c)s) <= g_n && vf_exc.pending == 0'
               ' && in->_b0.m_end == __CPROVER_loop_entry(in->_b0.m_end) && __CPROVER_same_object(in->_b0.m_end, g_buf) && OFF(in->_b0.m_end) == g_n && OFF(g_buf) == 0'
               ' && ((g_q >= g_k && g_q < OFF(%(c)s)) ==> !EOLSTART(g_q)))\n__CPROVER_decreases(g_n - OFF(%(c)s))') % {'c': CURL}
        out.append(Job('eol_default_%s' % tr[0], grp, 'eol', con, ('C19', 'C03'), prelude=prelude(tr) + PRE + EOLSTART_DEF,
                       harness=H % {'it': it, 'setup': setup + ' __CPROVER_assume(g_byte0 == 0 && g_col0 == 1); vf_exc.pending = 0;', 'call': '$ENTRY(&in, &p)'},
                       loops={(r'^bool tao::pegtl::internal::until<tao::pegtl::internal::at<tao::pegtl::internal::eolf> ?>::match<', 1, 'opt'): inv},
                       stubs=[(r'std::find<char const\*, char>\(', STD_FIND, 'opt')],
                       expect_fail_canary=('canary_exit',),
                       desc='memory_input<%s>::end_of_line(position) (eol policy lf_crlf), real until< at< eolf > > on the lazy sub-input under a loop contract' % tr))
        # line_at(): string_view { begin_of_line(p), end_of_line(p) - begin_of_line(p) }: everything below it runs as real code
        frmL = frm + (' && g_bol <= g_k && (g_bol == 0 || IN_BEGIN(self)[g_bol - 1] == EOLCH) && ((g_q >= g_bol && g_q < g_k) ==> IN_BEGIN(self)[g_q] != EOLCH)'
                      ' && p->column == 1 + (g_k - g_bol) ')
        conL = Contract(R(frmL, 'position-from-this-input'), A('vf_exc, vf_exc_counter'),
                        E('__CPROVER_same_object(RETP._M_str, IN_BEGIN(self)) && OFF(RETP._M_str) == g_bol', 'LINE-AT-STARTS-AT-THE-START-OF-THE-LINE', ('C19',)),
                        E('g_bol + RETP._M_len >= g_k && g_bol + RETP._M_len <= g_n', 'LINE-AT-ENDS-INSIDE-THE-INPUT-AT-OR-AFTER-THE-POSITION', ('C19', 'C03')),
                        E('g_bol + RETP._M_len == g_n || EOLSTART(g_bol + RETP._M_len)', 'LINE-AT-ENDS-AT-A-LINE-ENDING-OR-THE-END-OF-INPUT', ('C19',)),
                        E('(g_q >= g_k && g_q < g_bol + RETP._M_len) ==> !EOLSTART(g_q)', 'LINE-AT-CONTAINS-NO-LINE-ENDING-AFTER-THE-POSITION', ('C19',)),
                        E('vf_exc.pending == 0', 'LINE-AT-NEVER-RAISES', ('C19',)),
                        E('vf_canary', 'canary_exit'))
        out.append(Job('lineat_default_%s' % tr[0], grp, 'lineat', conL, ('C19', 'C03'), prelude=prelude(tr) + PRE + EOLSTART_DEF,
                       harness=H % {'it': it, 'setup': setup + ' __CPROVER_assume(g_byte0 == 0 && g_col0 == 1); vf_exc.pending = 0;', 'call': '$ENTRY(&in, &p)'},
                       loops={(r'^bool tao::pegtl::internal::until<tao::pegtl::internal::at<tao::pegtl::internal::eolf> ?>::match<', 1, 'opt'): inv},
                       stubs=[(r'std::find<char const\*, char>\(', STD_FIND, 'opt')],
                       expect_fail_canary=('canary_exit',),
                       desc='memory_input<%s>::line_at(position) (lf_crlf): real begin_of_line and end_of_line below it' % tr))
        # line_at() under the policies crlf and lf (Eol::ch is '\\n' for both, so the characterisation of the line start is the same)
        if tr == 'eager':
            for key, pol, edef in (('lineatcrlf', 'crlf', EOLSTART_CRLF), ('lineatlf', 'lf', EOLSTART_LF)):
                out.append(Job('lineat_%s_e' % pol, grp, key, conL, ('C19', 'C03'), prelude=prelude(tr) + PRE + edef,
                               harness=H % {'it': 'vf_' + INPUT_TYPES[('eager', pol)], 'setup': setup + ' __CPROVER_assume(g_byte0 == 0 && g_col0 == 1); vf_exc.pending = 0;', 'call': '$ENTRY(&in, &p)'},
                               loops={(r'^bool tao::pegtl::internal::until<tao::pegtl::internal::at<tao::pegtl::internal::eolf> ?>::match<', 1, 'opt'): inv},
                               stubs=[(r'std::find<char const\*, char>\(', STD_FIND, 'opt')],
                               expect_fail_canary=('canary_exit',),
                               desc='memory_input<eager, eol::%s>::line_at(position): real begin_of_line and end_of_line below it (line start characterised as: preceded by LF, no LF between it and the position; under crlf this leaves out lines that contain a lone LF before the position)' % pol))
        # end_of_line() under the policies cr_crlf and lf (same real body, other Eol::match inside eolf)
        if tr == 'eager' or tier == 'thorough':
            for key, pol, edef in (('eolcc', 'cr_crlf', EOLSTART_CC), ('eollf', 'lf', EOLSTART_LF), ('eolcr', 'cr', EOLSTART_CR), ('eolcrlf', 'crlf', EOLSTART_CRLF)):
                out.append(Job('eol_%s_%s' % (pol, tr[0]), grp, key, con, ('C19', 'C03'), prelude=prelude(tr) + PRE + edef,
                               harness=H % {'it': 'vf_' + INPUT_TYPES[(tr, pol)], 'setup': setup + ' __CPROVER_assume(g_byte0 == 0 && g_col0 == 1); vf_exc.pending = 0;', 'call': '$ENTRY(&in, &p)'},
                               loops={(r'^bool tao::pegtl::internal::until<tao::pegtl::internal::at<tao::pegtl::internal::eolf> ?>::match<', 1, 'opt'): inv},
                               stubs=[(r'std::find<char const\*, char>\(', STD_FIND, 'opt')],
                               expect_fail_canary=('canary_exit',),
                               desc='memory_input<%s, eol::%s>::end_of_line(position), real until< at< eolf > > on the lazy sub-input under a loop contract' % (tr, pol)))
        # position(): eager = the iterator fields; lazy = bump from the beginning, starting from the initial counters
        if tr == 'eager':
            con = Contract(R('__CPROVER_r_ok(self, sizeof(*self)) && g_n <= MAXN && PTRS_OK_BASE(self) && CNT_OK(self) && __CPROVER_w_ok(_sret, sizeof(*_sret))', 'pre'),
                           A('*_sret'),
                           E('_sret->byte == BYTE(self) && _sret->line == LINE(self) && _sret->column == COL(self)', 'POSITION-IS-THE-EAGER-ITERATOR', ('C06',)),
                           E('vf_canary', 'canary_exit'))
            stubs = []
        else:
            con = Contract(R('__CPROVER_r_ok(self, sizeof(*self)) && g_n <= MAXN && PTRS_OK_BASE(self) && __CPROVER_r_ok(IN_BEGIN(self), g_n) && OFF(CUR(self)) <= 8'
                             ' && INB(self).m_begin.line >= 1 && INB(self).m_begin.column >= 1 && INB(self).m_begin.byte < ((size_t)1<<62) && INB(self).m_begin.line < ((size_t)1<<62)'
                             ' && INB(self).m_begin.column < ((size_t)1<<62) && __CPROVER_w_ok(_sret, sizeof(*_sret))', 'pre'),
                           A('*_sret'),
                           E('_sret->byte == INB(self).m_begin.byte + OFF(CUR(self))', 'LAZY-POSITION-BYTE-IS-INITIAL-OFFSET-PLUS-CONSUMED', ('C06',)),
                           E('_sret->line == vf_pos_line(IN_BEGIN(self), OFF(CUR(self)), INB(self).m_begin.line, EOLCH)', 'LAZY-POSITION-LINE-IS-THE-FOLD-FROM-THE-INITIAL-LINE', ('C06',)),
                           E('_sret->column == vf_pos_col(IN_BEGIN(self), OFF(CUR(self)), INB(self).m_begin.column, EOLCH)', 'LAZY-POSITION-COLUMN-IS-THE-FOLD-FROM-THE-INITIAL-COLUMN', ('C06',)),
                           E('vf_canary', 'canary_exit'))
            stubs = g_pos.pos_stubs()
        hh = H % {'it': it, 'setup': setup + (' __CPROVER_assume(k <= 8);' if tr == 'lazy' else ''), 'call': '$ENTRY(&in, &p)'}
        out.append(Job('position_%s' % tr[0], grp, 'pos', con, ('C06',), prelude=prelude(tr) + PRE + g_pos.PRE_STUB, stubs=stubs, harness=hh,
                       expect_fail_canary=('canary_exit',),
                       bounded=None, desc='memory_input<%s>::position() (lazy: cursor offset <= 8, bump replaced by its contract proved for count <= 8)' % tr))
    return out
