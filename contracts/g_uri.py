"""group `uri`: the IPv4 / IPv6 literal rules of contrib/uri.hpp followed by eof, with EVERY callee as the real code
(seq, sor, opt, rep, rep_opt, rep_min_max, one, ranges, maximum_rule, the match() chain), against a language-exact
recogniser written from RFC 3986 section 3.2.2 (C20).  No loop contracts: every loop in these rules is bounded by a
template constant (rep counts) or by the value range (a dec-octet has at most 3 digits before 255 is exceeded), so
the jobs run with complete unwinding and unwinding assertions: a proof for every window length and content.
The other top-level rules (URI, URI-reference, absolute-URI) contain unbounded star/plus repetitions of a regular
language; they are NOT decided here."""
from vfcore import R, E, A, Contract, Job
from common import *
import g_pos

NAME = 'uri'
ASSUMPTIONS = [
    'the recogniser vf_ipv4_spec / vf_ipv6_spec in contracts/g_uri.py is a hand transcription of RFC 3986 3.2.2 (IPv6: pieces left and right of at most one "::", an IPv4 tail counts two pieces and must end the string; without "::" exactly 8 pieces, with it at most 7)',
]

TU_EXTRA = r'''
#include <tao/pegtl/contrib/uri.hpp>
'''

WIN = 48   # the longest IPv6 literal has 45 bytes: every longer window is rejected after at most 46 bytes were looked at
IPV6_WHOLE = False   # the whole rule in one job: 28-38 GB / no answer in 25 min, with real bodies and with every component summarised alike; stands as a bounded native check (native_checks)
ROOTS = []
for tr, sfx in (('eager', 'e'), ('lazy', 'l')):
    ROOTS.append(('ipv4_%s' % sfx, tr, 'internal::seq< uri::IPv4address, eof >::match< A0, M0, nothing, normal >( in )', 'ipv4'))
    if IPV6_WHOLE:
        ROOTS.append(('ipv6_%s' % sfx, tr, 'internal::seq< uri::IPv6address, eof >::match< A0, M0, nothing, normal >( in )', 'ipv6'))
    ROOTS.append(('decoctet_%s' % sfx, tr, 'internal::seq< uri::dec_octet, eof >::match< A0, M0, nothing, normal >( in )', 'dec'))
    ROOTS.append(('h16_%s' % sfx, tr, 'internal::seq< uri::h16, eof >::match< A0, M0, nothing, normal >( in )', 'h16'))
    ROOTS.append(('ls32_%s' % sfx, tr, 'internal::seq< uri::ls32, eof >::match< A0, M0, nothing, normal >( in )', 'ls32'))

# components of IPv6address that are proved on their real bodies against a PEG prefix-length function and then used as
# executable summaries one level up (one proving job per instantiation that IPv6address calls)
H16T, COLT = 'tao::pegtl::uri::h16', r'tao::pegtl::ascii::one<\(char\)58>'
COMPONENTS = {
    'h16': dict(rule='uri::h16', pat=r'^bool tao::pegtl::normal<%s>::match<' % H16T, len='vf_h16_len(%(p)s, %(a)s)', always=False, modes=(0, 1), uses=[]),
    'ls32': dict(rule='uri::ls32', pat=r'^bool tao::pegtl::normal<tao::pegtl::uri::ls32>::match<', len='vf_ls32_len(%(p)s, %(a)s)', always=False, modes=(1,), uses=['h16']),
    'left0': dict(rule='opt< uri::h16 >', pat=r'^bool tao::pegtl::normal<tao::pegtl::opt<%s\s*>\s*>::match<' % H16T, len='vf_left_len(%(p)s, %(a)s, 0)', always=True, modes=(1,), uses=['h16']),
    'left1': dict(rule='opt< uri::h16, opt< uri::colon, uri::h16 > >', pat=r'^bool tao::pegtl::normal<tao::pegtl::opt<%s, tao::pegtl::opt<%s, %s\s*>\s*>\s*>::match<' % (H16T, COLT, H16T),
                  len='vf_left_len(%(p)s, %(a)s, 1)', always=True, modes=(1,), uses=['h16']),
}
for K in range(2, 7):
    COMPONENTS['left%d' % K] = dict(rule='opt< uri::h16, rep_opt< %d, uri::colon, uri::h16 > >' % K,
                                    pat=r'^bool tao::pegtl::normal<tao::pegtl::opt<%s, tao::pegtl::rep_opt<%du, %s, %s\s*>\s*>\s*>::match<' % (H16T, K, COLT, H16T),
                                    len='vf_left_len(%%(p)s, %%(a)s, %d)' % K, always=True, modes=(1,), uses=['h16'])
for N in range(2, 7):
    COMPONENTS['rep%d' % N] = dict(rule='rep< %d, uri::h16, uri::colon >' % N,
                                   pat=r'^bool tao::pegtl::normal<tao::pegtl::rep<%du, %s, %s\s*>\s*>::match<' % (N, H16T, COLT),
                                   len='vf_rep_len(%%(p)s, %%(a)s, %d)' % N, always=False, modes=(1,), uses=['h16'])
PROVERS = {}
for tr, sfx in (('eager', 'e'), ('lazy', 'l')):
    for comp, cd in COMPONENTS.items():
        for m in cd['modes']:
            nm = 'sum_%s_M%d_%s' % (comp, m, sfx)
            ROOTS.append((nm, tr, 'normal< %s >::match< A0, M%d, nothing, normal >( in )' % (cd['rule'], m), 'sum:%s:%d' % (comp, m)))
            PROVERS.setdefault((comp, tr), []).append(nm)

def tu():
    s = TU_PROLOGUE + TU_EXTRA
    for name, tr, expr, kind in ROOTS:
        s += tu_root(name, INPUT_TYPES[(tr, 'lf_crlf')], expr)
    return s


import os
SPEC = open(os.path.join(os.path.dirname(os.path.abspath(__file__)), 'spec_uri.h')).read()

SPEC_OF = {'ipv4': 'vf_ipv4_spec', 'ipv6': 'vf_ipv6_spec', 'dec': '0 != vf_dec_octet_len_all', 'h16': 'vf_h16_spec', 'ls32': 'vf_ls32_spec'}
SPEC_OF['dec'] = 'vf_dec_octet_len_all'


def adv(tr, n):
    """C statements that move the cursor of `in` forward by n bytes inside a line"""
    if tr == 'eager':
        return 'CUR(in) += %s; BYTE(in) += %s; COL(in) += %s;' % (n, n, n)
    return 'CUR(in) += %s;' % n


def summary_body(tr, cd, m):
    """executable form of the component contract: success consumes exactly the PEG prefix length; a local failure leaves the
    cursor where it was when rewinding is required and anywhere inside the window otherwise"""
    ln = cd['len'] % {'p': '(const vf_u8*)CUR(in)', 'a': 'a'}
    if cd['always']:
        return '  size_t a = (size_t)(IN_END(in) - CUR(in));\n  size_t n = %s;\n  %s\n  return 1;' % (ln, adv(tr, 'n'))
    fail = 'return 0;' if m == 0 else '{ size_t d; __CPROVER_assume(d <= a); %s return 0; }' % adv(tr, 'd')
    return ('  size_t a = (size_t)(IN_END(in) - CUR(in));\n  size_t n = %s;\n'
            '  if (n == 0) %s\n  %s\n  return 1;' % (ln, fail, adv(tr, 'n')))


def summaries_for(tr, comps):
    return [(COMPONENTS[c]['pat'], (lambda fi, tr=tr, cd=COMPONENTS[c]: summary_body(tr, cd, parse_m(fi))), PROVERS[(c, tr)]) for c in comps]


def component_contract(tr, cd, m):
    P = ('C20',)
    ln = cd['len'] % {'p': 'UOLD(in)', 'a': 'AVAIL_OLD(in)'}
    c = Contract(
        R('VALID_PRE(in) && vf_exc.pending == 0'),
        A('IT_FIELDS(in), vf_exc, vf_exc_counter'),
        E('VALID_POST(in)', 'RC-VALID', ('C03',)),
        E('MONO(in)', 'RC-MONO', ('C02',)),
        E('vf_exc.pending == 0', 'URI-IP-RULES-NEVER-RAISE', P),
        E(('RET == 1' if cd['always'] else 'RET == (%s > 0)' % ln), 'COMPONENT-ACCEPTS-EXACTLY-ITS-PEG-PREFIX', P),
        E('RET ==> CONSUMED(in) == %s' % ln, 'COMPONENT-CONSUMES-EXACTLY-ITS-PEG-PREFIX', P))
    if tr == 'eager':
        c.add(E('BYTE(in) == OLD(BYTE(in)) + CONSUMED(in) && COL(in) == OLD(COL(in)) + CONSUMED(in) && LINE(in) == OLD(LINE(in))', 'COMPONENT-COUNTERS-FOLLOW-THE-CURSOR', P))
    if m == 0:
        c.add(E('!RET ==> ITER_UNCHANGED(in)', 'RC-REWIND', ('C02',)))
    if not cd['always']:
        c.add(E('!RET || vf_canary', 'canary_ok'))
        c.add(E('RET || vf_canary', 'canary_fail'))
    else:
        c.add(E('vf_canary', 'canary_exit'))
    return c


def jobs(tier):
    out = []
    P = ('C20',)
    for name, tr, expr, kind in ROOTS:
        if tr == 'lazy' and tier != 'thorough':
            continue
        summaries = []
        if kind.startswith('sum:'):
            _, comp, m = kind.split(':')
            con = component_contract(tr, COMPONENTS[comp], int(m))
            summaries = summaries_for(tr, COMPONENTS[comp]['uses'])
            canary = ('canary_exit',) if COMPONENTS[comp]['always'] else canaries()
        else:
            con = Contract(
                R('VALID_PRE(in) && vf_exc.pending == 0'),
                A('IT_FIELDS(in), vf_exc, vf_exc_counter'),
                E('VALID_POST(in)', 'RC-VALID', ('C03',)),
                E('vf_exc.pending == 0', 'URI-IP-RULES-NEVER-RAISE', P),
                E('RET == %s(UOLD(in), AVAIL_OLD(in))' % SPEC_OF[kind], 'URI-%s-FOLLOWED-BY-EOF-ACCEPTS-EXACTLY-THE-RFC3986-LANGUAGE' % kind.upper(), P),
                E('RET ==> CONSUMED(in) == AVAIL_OLD(in)', 'URI-CONSUMES-TO-END', P),
                E('!RET ==> ITER_UNCHANGED(in)', 'RC-REWIND', ('C02',)),
                E('!RET || vf_canary', 'canary_ok'),
                E('RET || vf_canary', 'canary_fail'))
            canary = canaries()
            if kind == 'ipv6':
                summaries = summaries_for(tr, list(COMPONENTS))
        # the bump primitives run as real code: a cursor havocked by a contract stub cannot be read through again (DESIGN.md section 14)
        j = Job(name, NAME, name, con, ('C20', 'C03'), prelude=prelude(tr) + SPEC, stubs=[],
                harness=input_harness('vf_' + INPUT_TYPES[(tr, 'lf_crlf')], tr, 'w_ret = $ENTRY(&in)', pre_call='  vf_exc.pending = 0; __CPROVER_assume(k == 0 && g_n <= %d);\n' % WIN),
                expect_fail_canary=canary, unwind=10, flags=['--object-bits', '12'], timeout=1500,
                desc='%s on memory_input<%s>: callees real%s, complete unwinding' % (expr, tr, ' except the summarised components' if summaries else ''))
        j.summaries = summaries
        if kind == 'ipv6':
            # fixed-size buffer object with a symbolic logical end: a dynamic object of symbolic size makes every read an unbounded-array
            # read (quadratic Ackermann constraints: 38 GB); reads between the logical end and byte 48 are then in-bounds for CBMC, so this
            # job does not serve C03 (the component jobs do, on exact-size objects)
            j.harness = j.harness.replace('malloc(g_n)', 'malloc(%d)' % WIN)
            j.props = ('C20',)
        if not kind.startswith('sum:'):
            j.replay = {'kind': 'leaf', 'tracking': tr, 'eol': 'lf_crlf', 'defs': SPEC.replace('_Bool', 'bool')}
        out.append(j)
    return out


def parse_m(fi):
    import re
    return int(re.search(r'\(tao::pegtl::rewind_mode\)(\d)', fi['pretty']).group(1))


def native_checks(tier):
    len1 = 7 if tier != 'thorough' else 9
    return [dict(name='uri_enum_bounded', props=('C20',), src='bounded/uri_enum.cpp', args=['5' if tier != 'thorough' else '6'],
                 bound='real URI / URI_reference / absolute_URI followed by eof run natively against a language-exact RFC 3986 Appendix A recogniser (position-set semantics) on: all strings over '
                       '"a1:/?#[]@.%%,+-" up to length %s; the product of component samples (7 schemes x 6 userinfos x 16 hosts x 4 ports x 10 paths x 4 queries x 4 fragments)' % ('5' if tier != 'thorough' else '6')),
            dict(name='ipv6_enum_bounded', props=('C20',), src='bounded/ipv6_enum.cpp', args=[str(len1)],
                 bound='real seq< IPv6address, eof > (and the literal as host of URI / URI-reference / absolute-URI) run natively against the RFC 3986 recogniser on: all strings over {1,a,:,.,g} '
                       'up to length %d; all shapes <0..9 groups>[::]<0..9 groups>[IPv4 tail] with per-position group variants; all single-character edits of those shapes' % len1)]
