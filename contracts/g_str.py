"""group `str`: multi-byte and zero-width leaf rules on memory_input: string, istring, bytes, eof, eol (five
policies), eolf, bof, bol, everything, success, failure.  Serves C02(b), C03, C06, C09 (string, eolf,
everything against their documented expansions), C10 (istring folding), C11 (progress)."""
from vfcore import R, E, A, Contract, Job
from common import *
import g_pos

NAME = 'str'
ASSUMPTIONS = ['line endings per policy transcribed from doc/Inputs-and-Parsing.md: lf="\\n", cr="\\r", crlf="\\r\\n", lf_crlf="\\n"|"\\r\\n", cr_crlf="\\r"|"\\r\\n" (longest)']

EOLS = ['lf_crlf', 'lf', 'cr', 'crlf', 'cr_crlf']


def chars(s):
    return ', '.join("'%s'" % {'\n': '\\n', '\r': '\\r', '\t': '\\t', "'": "\\'", '\\': '\\\\'}.get(c, c) for c in s)


STRINGS = [('abc', 'abc'), ('crlf', '\r\n'), ('x', 'x'), ('key8', 'ab\ncd_E9'), ('nl2', '\n\n')]
ISTRINGS = [('aB1_', 'aB1_'), ('zZ', 'zZ'), ('at', '@[`{'), ('nl', 'a\nb')]
BYTES = [1, 4, 8]

ROOTS = []   # (root name, tracking, eol, C++ expression, kind, param)
for tr, sfx in (('eager', 'e'), ('lazy', 'l')):
    for nm, s in STRINGS:
        ROOTS.append(('string_%s_%s' % (nm, sfx), tr, 'lf_crlf', 'internal::string< %s >::match( in )' % chars(s), 'string', s))
    for nm, s in ISTRINGS:
        ROOTS.append(('istring_%s_%s' % (nm, sfx), tr, 'lf_crlf', 'internal::istring< %s >::match( in )' % chars(s), 'istring', s))
    for n in BYTES:
        ROOTS.append(('bytes%d_%s' % (n, sfx), tr, 'lf_crlf', 'internal::bytes< %d >::match( in )' % n, 'bytes', n))
    for eol in EOLS:
        ROOTS.append(('eol_%s_%s' % (eol, sfx), tr, eol, 'internal::eol::match( in )', 'eol', eol))
        ROOTS.append(('eolf_%s_%s' % (eol, sfx), tr, eol, 'internal::eolf::match( in )', 'eolf', eol))
    ROOTS.append(('eof_%s' % sfx, tr, 'lf_crlf', 'internal::eof::match( in )', 'eof', None))
    ROOTS.append(('bof_%s' % sfx, tr, 'lf_crlf', 'internal::bof::match( in )', 'bof', None))
    ROOTS.append(('everything_%s' % sfx, tr, 'lf_crlf', 'internal::everything< std::size_t >::match( in )', 'everything', None))
    ROOTS.append(('success_%s' % sfx, tr, 'lf_crlf', 'internal::success::match( in )', 'success', None))
    ROOTS.append(('failure_%s' % sfx, tr, 'lf_crlf', 'internal::failure::match( in )', 'failure', None))
ROOTS.append(('bol_e', 'eager', 'lf_crlf', 'internal::bol::match( in )', 'bol', None))
# contrib/rep_one_min_max.hpp: a maximal run of one character whose length lies in [Min, Max]
ROMM = [('romm24x', 2, 4, 'x'), ('romm03x', 0, 3, 'x'), ('romm11nl', 1, 1, '\n'), ('romm12nl', 1, 2, '\n')]
for tr, sfx in (('eager', 'e'), ('lazy', 'l')):
    for nm, mn, mx, ch in ROMM:
        ROOTS.append(('%s_%s' % (nm, sfx), tr, 'lf_crlf', 'internal::rep_one_min_max< %d, %d, %s >::match( in )' % (mn, mx, "'\\n'" if ch == '\n' else "'%s'" % ch), 'romm', (mn, mx, ch)))


def tu():
    s = TU_PROLOGUE + '#include <tao/pegtl/contrib/rep_one_min_max.hpp>\n'
    for name, tr, eol, expr, kind, param in ROOTS:
        s += tu_root(name, INPUT_TYPES[(tr, eol)], expr)
    return s


SPEC = '''
/* documented line endings, per policy; returns the length of the line ending at p (0 = none) */
static inline size_t vf_eol_len(const vf_u8* p, size_t avail, int policy)
{
  if (avail == 0) return 0;
  switch (policy) {
    case 0: /* lf_crlf */ if (p[0] == '\\n') return 1; return (avail >= 2 && p[0] == '\\r' && p[1] == '\\n') ? 2 : 0;
    case 1: /* lf */      return p[0] == '\\n' ? 1 : 0;
    case 2: /* cr */      return p[0] == '\\r' ? 1 : 0;
    case 3: /* crlf */    return (avail >= 2 && p[0] == '\\r' && p[1] == '\\n') ? 2 : 0;
    default: /* cr_crlf */ if (p[0] != '\\r') return 0; return (avail >= 2 && p[1] == '\\n') ? 2 : 1;
  }
}
/* case-insensitive comparison folds exactly the ASCII letters */
static inline _Bool vf_ieq(char c, char C)
{
  _Bool letter = (C >= 'a' && C <= 'z') || (C >= 'A' && C <= 'Z');
  if (!letter) return c == C;
  char other = (C >= 'a' && C <= 'z') ? (char)(C - 'a' + 'A') : (char)(C - 'A' + 'a');
  return c == C || c == other;
}
'''


def lit(c):
    return str(ord(c))


def spec_for(kind, param, tr, eol):
    P9 = ('C09',)
    if kind == 'string':
        n = len(param)
        eq = ' && '.join('(char)UOLD(in)[%d] == (char)%s' % (i, lit(c)) for i, c in enumerate(param))
        return dict(extra=[E('RET == (AVAIL_OLD(in) >= %d && %s)' % (n, eq), 'STRING-ACCEPT', ('C09', 'C10')),
                           E('RET ==> CONSUMED(in) == %d' % n, 'STRING-LEN', ('C09', 'C10'))], progress=True)
    if kind == 'istring':
        n = len(param)
        eq = ' && '.join('vf_ieq((char)UOLD(in)[%d], (char)%s)' % (i, lit(c)) for i, c in enumerate(param))
        return dict(extra=[E('RET == (AVAIL_OLD(in) >= %d && %s)' % (n, eq), 'ISTRING-FOLDS-ASCII-LETTERS-ONLY', ('C10',)),
                           E('RET ==> CONSUMED(in) == %d' % n, 'ISTRING-LEN', ('C10',))], progress=True)
    if kind == 'bytes':
        return dict(extra=[E('RET == (AVAIL_OLD(in) >= %d)' % param, 'BYTES-ACCEPT', ('C09',)),
                           E('RET ==> CONSUMED(in) == %d' % param, 'BYTES-LEN', ('C09',))], progress=True)
    if kind == 'romm':
        mn, mx, ch = param
        C = str(ord(ch))
        run = '((g_k < g_i ==> (char)UOLD(in)[g_k] == (char)%s) && (g_i == AVAIL_OLD(in) || (char)UOLD(in)[g_i] != (char)%s) && g_i <= AVAIL_OLD(in))' % (C, C)
        return dict(extra=[E('AVAIL_OLD(in) >= %d ==> %s' % (mn, run), 'ROMM-GHOST-IS-THE-MAXIMAL-RUN', P9),      # with fewer than Min bytes left the run cannot reach Min and is not counted
                           E('RET == (AVAIL_OLD(in) >= %d && g_i >= %d && g_i <= %d)' % (mn, mn, mx), 'ROMM-ACCEPTS-IFF-THE-MAXIMAL-RUN-IS-IN-RANGE', P9),
                           E('RET ==> CONSUMED(in) == g_i', 'ROMM-CONSUMES-THE-RUN', P9)], can_fail=True)
    if kind == 'eol':
        pol = EOLS.index(param)
        return dict(extra=[E('RET == (vf_eol_len(UOLD(in), AVAIL_OLD(in), %d) > 0)' % pol, 'EOL-ACCEPT', ('C09', 'C10')),
                           E('RET ==> CONSUMED(in) == vf_eol_len(UOLD(in), AVAIL_OLD(in), %d)' % pol, 'EOL-LEN', ('C09', 'C10'))], progress=True)
    if kind == 'eolf':
        pol = EOLS.index(param)
        return dict(extra=[E('RET == (vf_eol_len(UOLD(in), AVAIL_OLD(in), %d) > 0 || AVAIL_OLD(in) == 0)' % pol, 'EOLF-IS-SOR-EOL-EOF', P9),
                           E('RET ==> CONSUMED(in) == vf_eol_len(UOLD(in), AVAIL_OLD(in), %d)' % pol, 'EOLF-LEN', P9)], progress=False)
    if kind == 'eof':
        return dict(extra=[E('RET == (AVAIL_OLD(in) == 0)', 'EOF-ACCEPT', ('C09',))], look=True)
    if kind == 'bof':
        if tr == 'eager':
            return dict(extra=[E('RET == (OLD(BYTE(in)) == 0)', 'BOF-ACCEPT', ('C09',))], look=True)
        return dict(extra=[E('RET == (OFF(OLD(CUR(in))) == 0)', 'BOF-ACCEPT', ('C09',))], look=True)
    if kind == 'bol':
        return dict(extra=[E('RET == (OLD(COL(in)) == 1)', 'BOL-ACCEPT', ('C09',))], look=True)
    if kind == 'everything':
        return dict(extra=[E('RET == 1 && CONSUMED(in) == AVAIL_OLD(in)', 'EVERYTHING-IS-UNTIL-EOF-ANY', P9)], pos=False, can_fail=False)
    if kind == 'success':
        return dict(extra=[E('RET == 1', 'SUCCESS', P9)], look=True, can_fail=False)
    if kind == 'failure':
        return dict(extra=[E('RET == 0', 'FAILURE', P9)], look=True, can_succeed=False)
    raise KeyError(kind)


def jobs(tier):
    out = []
    TR = traits_of(NAME, {name: expr.replace('::match( in )', '') for name, tr, eol, expr, kind, param in ROOTS}, includes=('tao/pegtl/contrib/rep_one_min_max.hpp',))
    for name, tr, eol, expr, kind, param in ROOTS:
        if tier != 'thorough' and tr == 'lazy' and kind in ('eol', 'eolf') and eol not in ('lf_crlf', 'cr_crlf'):
            continue
        sp = spec_for(kind, param, tr, eol)
        con = rc_leaf(tr, eol, look=sp.get('look', False), progress=sp.get('progress', False), pos=sp.get('pos', True),
                      extra=sp['extra'] + c11_leaf(TR[name]), can_succeed=sp.get('can_succeed', True), can_fail=sp.get('can_fail', True))
        stubs = g_pos.pos_stubs()
        unwind = None
        if kind == 'everything':
            stubs = [x for x in stubs if 'bump\\(' not in x[0]]   # count is unbounded here: the real bump loop runs under its own loop contract
        j = Job(name, NAME, name, con, ('C02', 'C03', 'C06', 'C09', 'C11'), prelude=prelude(tr) + SPEC + g_pos.PRE_STUB,
                stubs=stubs, harness=input_harness('vf_' + INPUT_TYPES[(tr, eol)], tr, 'w_ret = $ENTRY(&in)'),
                expect_fail_canary=canaries(sp.get('can_succeed', True), sp.get('can_fail', True)),
                replay={'kind': 'leaf', 'tracking': tr, 'eol': eol, 'defs': SPEC.replace('_Bool', 'bool')},
                desc='%s on memory_input<%s,%s>' % (expr, tr, eol))
        if kind == 'romm':
            j.prelude = j.prelude + 'size_t g_i, g_k;   /* ghost: run length as counted by the loop; unconstrained probe index */\n'
            j.contract.clauses.insert(1, R('g_i == 0', 'ghost-pre'))
            j.contract.clauses = [A('IT_FIELDS(in), g_i') if c.kind == 'assigns' else c for c in j.contract.clauses]
            j.harness = j.harness.replace('  w_ret = ', '  g_i = 0;\n  w_ret = ')
            fn = r'internal::rep_one_min_max<.*>::match<'
            j.loops = {(fn, 1): '__CPROVER_assigns(i, g_i)\n__CPROVER_loop_invariant(i <= size && g_i == i && size == AVAIL_OLD_NOW(in) && ((g_k < i) ==> (char)UNOW(in)[g_k] == (char)%d)%s)\n__CPROVER_decreases(size - i)' % (
                ord(param[2]), ''.join(' && ((%d < i) ==> (char)UNOW(in)[%d] == (char)%d)' % (q, q, ord(param[2])) for q in range(param[1] + 1)))}   # the first Max+1 bytes explicitly: RC-POS folds over every consumed byte
            j.ghost = {(fn, 1): '{ g_i = i; }'}
            j.prelude += '#define UNOW(in) ((const vf_u8*)CUR(in))\n#define AVAIL_OLD_NOW(in) ((size_t)(IN_END(in) - CUR(in)))\n'
            j.replay = None
        if kind == 'everything' and tr == 'eager':
            j.loops = {(r'^tao::pegtl::internal::bump\(', 1):
                       '__CPROVER_assigns(i, iter->line, iter->column)\n'
                       '__CPROVER_loop_invariant(i <= count && iter->line >= 1 && iter->column >= 1 && iter->line <= __CPROVER_loop_entry(iter->line) + i && iter->column <= __CPROVER_loop_entry(iter->column) + i'
                       ' && iter->data == __CPROVER_loop_entry(iter->data) && iter->byte == __CPROVER_loop_entry(iter->byte))'}
        out.append(j)
    return out
