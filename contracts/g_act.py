"""group `act`: rules that switch or invoke actions directly (C04, C13): if_apply, apply, apply0,
disable, enable, internal::action<NewAction,...>, internal::control<NewControl,...>."""
from vfcore import R, E, A, Contract, Job, Clause
from common import *

NAME = 'act'
ASSUMPTIONS = ['scope of a switch: the callee instantiation carries the new Action/Control/apply-mode template argument; the continuation of the caller is a different instantiation fixed at compile time (visible in the AST), so nothing after the attached rule can be affected']

TU_EXTRA = r'''
namespace vf {
struct XV { template< typename AI > static void apply( const AI& ); };
struct XB { template< typename AI > static bool apply( const AI& ); };
struct X0V { static void apply0(); };
struct X0B { static bool apply0(); };
template< typename Rule > struct NA : nothing< Rule > {};     // a "new" action class template
template< typename Rule > struct NC : normal< Rule > {};      // a "new" control class template
}
'''
AM = [(a, m) for a in (0, 1) for m in (0, 1)]
OPS = {
    'ifapply': 'internal::if_apply< R<0>, XV, XB >',
    'ifapply0': 'internal::if_apply< R<0> >',
    'apply': 'internal::apply< XV, XB >',
    'apply0': 'internal::apply0< X0V, X0B >',
    'disable': 'internal::disable< R<0> >',
    'enable': 'internal::enable< R<0> >',
    'action': 'internal::action< NA, R<0> >',
    'control': 'internal::control< NC, R<0> >',
}


def rname(op, a, m, tr):
    return '%s_A%dM%d_%s' % (op, a, m, 'e' if tr == 'eager' else 'l')


def all_roots(tracking):
    return [(op, a, m, tracking) for op in OPS for a, m in AM]


def tu_for(tracking):
    s = TU_PROLOGUE + TU_EXTRA
    for op, a, m, tr in all_roots(tracking):
        s += tu_root(rname(op, a, m, tr), INPUT_TYPES[(tr, 'lf_crlf')], '%s::match< A%d, M%d, nothing, normal >( in )' % (OPS[op], a, m))
    return s


SUBGROUPS = {'act_e': lambda: tu_for('eager'), 'act_l': lambda: tu_for('lazy')}


def act_prelude(tr):
    p = comb_prelude(tr) + '''
/* direct actions: order automaton and the spans they were given */
int g_aturn; int g_acalled[2]; int g_aret[2]; size_t g_sb_off[2], g_se_off[2];
'''
    if tr == 'eager':
        p += 'size_t g_sb_byte[2], g_sb_line[2], g_sb_col[2];\n#define SPAN_BEGIN_IS_ENTRY(k) (g_sb_off[k] == g_e_off && g_sb_byte[k] == g_e_byte && g_sb_line[k] == g_e_line && g_sb_col[k] == g_e_col)\n'
    else:
        p += '#define SPAN_BEGIN_IS_ENTRY(k) (g_sb_off[k] == g_e_off)\n'
    return p


def direct_action_stub(k, isbool, with_input, tr, need_rule):
    c = Contract()
    pre = 'g_aturn == %d && vf_exc.pending == 0' % k
    if need_rule:
        pre += ' && g_called[0] && g_ok[0]'
    if with_input:
        pre = '__CPROVER_r_ok(_p0, sizeof(*_p0)) && ' + pre
    c.add(R(pre, 'direct-action-in-order-after-the-rule-matched', ('C04',)))
    asg = 'g_aturn, g_acalled[%d], g_aret[%d], g_sb_off[%d], g_se_off[%d], vf_exc, vf_exc_counter, g_exc_obj, g_exc_type' % (k, k, k, k)
    rec = '1'
    if with_input:
        rec = 'g_sb_off[%d] == OFF(_p0->m_begin%s) && g_se_off[%d] == OFF(CUR(_p0->m_input))' % (k, '.data' if tr == 'eager' else '', k)
        if tr == 'eager':
            asg += ', g_sb_byte[%d], g_sb_line[%d], g_sb_col[%d]' % (k, k, k)
            rec += ' && g_sb_byte[%d] == _p0->m_begin.byte && g_sb_line[%d] == _p0->m_begin.line && g_sb_col[%d] == _p0->m_begin.column' % (k, k, k)
    c.add(Clause('assigns', asg))
    c.add(E('g_acalled[%d] == 1 && (%s) && BOOL01(vf_exc.pending) && BOOL01(g_aret[%d])' % (k, rec, k), 'stub'))
    c.add(E('vf_exc.pending ==> (g_aturn == T_NONE && vf_exc.obj == OLD(vf_exc_counter) + 1 && vf_exc_counter == vf_exc.obj && g_exc_obj == vf_exc.obj && g_exc_type == vf_exc.type && vf_exc.nested_obj == 0)', 'stub'))
    c.add(E('!vf_exc.pending ==> (g_exc_obj == OLD(g_exc_obj) && g_exc_type == OLD(g_exc_type) && vf_exc_counter == OLD(vf_exc_counter))', 'stub'))
    if isbool:
        c.add(E('BOOL01(RET) && (!vf_exc.pending ==> (RET == g_aret[%d] && g_aturn == (RET ? %d : T_NONE)))' % (k, k + 1), 'stub'))
    else:
        c.add(E('!vf_exc.pending ==> (g_aret[%d] == 1 && g_aturn == %d)' % (k, k + 1), 'stub'))
    return c


def spec_for(op, a, m, tr):
    P4, P13 = ('C04',), ('C13',)
    stubs = []
    post = []
    if op == 'ifapply':
        if a == 1:
            stubs.append((r'^bool vf::R<\d+>::match<', rule_stub({0: dict(A='1', next_ok='T_NONE', next_fail='T_NONE')})))
            stubs.append((r'^void vf::XV::apply<', direct_action_stub(0, False, True, tr, True)))
            stubs.append((r'^bool vf::XB::apply<', direct_action_stub(1, True, True, tr, True)))
            post = [E('g_called[0] && g_ncalls[0] == 1', 'IFAPPLY-RULE-ONCE', P4),
                    E('(!vf_exc.pending && !g_ok[0]) ==> (RET == 0 && !g_acalled[0] && !g_acalled[1])', 'IFAPPLY-NO-ACTION-WITHOUT-MATCH', P4),
                    E('(!vf_exc.pending && g_ok[0]) ==> (g_acalled[0] && g_acalled[1] && RET == g_aret[1])', 'IFAPPLY-ACTIONS-IN-ORDER-RESULT-IS-CONJUNCTION', P4),
                    E('(g_acalled[0]) ==> (SPAN_BEGIN_IS_ENTRY(0) && g_se_off[0] == g_e_off + g_len[0])', 'IFAPPLY-SPAN-IS-EXACTLY-THE-MATCH', P4),
                    E('(g_acalled[1]) ==> (SPAN_BEGIN_IS_ENTRY(1) && g_se_off[1] == g_e_off + g_len[0])', 'IFAPPLY-SPAN-IS-EXACTLY-THE-MATCH', P4),
                    E('(!vf_exc.pending && !RET) ==> ITER_UNCHANGED(in)', 'IFAPPLY-VETO-OR-FAILURE-RESTORES-CURSOR', ('C04', 'C02')),
                    E('(!vf_exc.pending && RET) ==> CONSUMED(in) == g_len[0]', 'IFAPPLY-CONSUMED', P4)]
        else:
            stubs.append((r'^bool vf::R<\d+>::match<', rule_stub({0: dict(A='0', M=str(m), next_ok='T_NONE', next_fail='T_NONE')})))
            post = [E('!vf_exc.pending ==> (g_called[0] && RET == g_ok[0] && (RET ==> CONSUMED(in) == g_len[0]))', 'IFAPPLY-DISABLED-IS-THE-RULE', P4)]
    elif op == 'ifapply0':
        stubs.append((r'^bool vf::R<\d+>::match<', rule_stub({0: dict(A=str(a), M=str(m), next_ok='T_NONE', next_fail='T_NONE')})))
        post = [E('!vf_exc.pending ==> (g_called[0] && RET == g_ok[0] && (RET ==> CONSUMED(in) == g_len[0]))', 'IFAPPLY-WITHOUT-ACTIONS-IS-THE-RULE', P4)]
    elif op == 'apply':
        if a == 1:
            stubs.append((r'^void vf::XV::apply<', direct_action_stub(0, False, True, tr, False)))
            stubs.append((r'^bool vf::XB::apply<', direct_action_stub(1, True, True, tr, False)))
            post = [E('!vf_exc.pending ==> (g_acalled[0] && g_acalled[1] && RET == g_aret[1])', 'APPLY-CALLS-ALL-IN-ORDER', P4),
                    E('g_acalled[0] ==> (SPAN_BEGIN_IS_ENTRY(0) && g_se_off[0] == g_e_off)', 'APPLY-EMPTY-SPAN-AT-CURSOR', P4),
                    E('g_acalled[1] ==> (SPAN_BEGIN_IS_ENTRY(1) && g_se_off[1] == g_e_off)', 'APPLY-EMPTY-SPAN-AT-CURSOR', P4),
                    E('ITER_UNCHANGED(in)', 'RC-LOOK', ('C02', 'C04'))]
        else:
            post = [E('RET == 1 && !g_acalled[0] && !g_acalled[1] && ITER_UNCHANGED(in)', 'APPLY-NOTHING-WHEN-DISABLED', P4)]
    elif op == 'apply0':
        if a == 1:
            stubs.append((r'^vf::X0V::apply0\(', direct_action_stub(0, False, False, tr, False)))
            stubs.append((r'^vf::X0B::apply0\(', direct_action_stub(1, True, False, tr, False)))
            post = [E('!vf_exc.pending ==> (g_acalled[0] && g_acalled[1] && RET == g_aret[1])', 'APPLY0-CALLS-ALL-IN-ORDER', P4),
                    E('ITER_UNCHANGED(in)', 'RC-LOOK', ('C02', 'C04'))]
        else:
            post = [E('RET == 1 && !g_acalled[0] && !g_acalled[1] && ITER_UNCHANGED(in)', 'APPLY0-NOTHING-WHEN-DISABLED', P4)]
    else:
        exp = {'disable': dict(A='0', M=str(m)), 'enable': dict(A='1', M=str(m)),
               'action': dict(A=str(a), M=str(m), action='vf::NA', control='tao::pegtl::normal'),
               'control': dict(A=str(a), M=str(m), action='tao::pegtl::nothing', control='vf::NC')}[op]
        d = dict(exp); d.update(next_ok='T_NONE', next_fail='T_NONE')
        stubs.append((r'^bool vf::R<\d+>::match<', rule_stub({0: d})))
        post = [E('!vf_exc.pending ==> (g_called[0] && g_ncalls[0] == 1 && RET == g_ok[0] && (RET ==> CONSUMED(in) == g_len[0]))', 'SWITCH-FORWARDS-TO-EXACTLY-THE-RULE', ('C13', 'C04'))]
    if a == 0 and op in ('ifapply', 'apply', 'apply0'):
        # actions disabled: the direct actions must not be reachable at all; should a changed rule call one, the call is a failed precondition
        for pat in (r'^void vf::XV::apply<', r'^bool vf::XB::apply<', r'^vf::X0V::apply0\(', r'^vf::X0B::apply0\('):
            stubs.append((pat, Contract(R('0', 'direct-action-called-although-actions-are-disabled', ('C04',)), Clause('assigns', '')), 'opt'))
    return stubs, post


def jobs(tier):
    out = []
    TR = traits_of(NAME, OPS, decls=TU_EXTRA)
    for tr in ('eager', 'lazy'):
        for op, a, m, _ in all_roots(tr):
            if tr == 'lazy' and tier != 'thorough' and not (a == 1 and m == 0 and op in ('ifapply', 'apply')):
                continue
            stubs, post = spec_for(op, a, m, tr)
            con = Contract(comb_requires(), R('g_aturn == 0 && g_acalled[0] == 0 && g_acalled[1] == 0', 'act-pre'),
                           Clause('assigns', 'IT_FIELDS(in), g_turn, g_pos, g_done, g_iter, g_last, g_called, g_ok, g_len, g_ncalls, g_ae, g_re, g_lp, g_cur, vf_exc, vf_exc_counter, g_exc_obj, g_exc_type, '
                                  'g_aturn, g_acalled, g_aret, g_sb_off, g_se_off' + (', g_sb_byte, g_sb_line, g_sb_col' if tr == 'eager' else '')))
            for c in comb_common(m, props_rewind=('C02', 'C04')):
                con.add(c)
            for c in post:
                con.add(c)
            for c in c11_premises(TR[op], 0 if op in ('apply', 'apply0') else 1):
                con.add(c)
            con.add(E('vf_canary', 'canary_exit'))
            j = Job(rname(op, a, m, tr), 'act_e' if tr == 'eager' else 'act_l', rname(op, a, m, tr), con, ('C04', 'C13', 'C02', 'C11'),
                    stubs=stubs, prelude=act_prelude(tr),
                    harness=comb_harness('vf_' + INPUT_TYPES[(tr, 'lf_crlf')], tr, 'w_ret = $ENTRY(&in)').replace(
                        'vf_exc.pending = 0;', 'vf_exc.pending = 0; vf_exc.obj = 0; g_aturn = 0; g_acalled[0] = g_acalled[1] = 0;'),
                    expect_fail_canary=('canary_exit',),
                    desc='%s apply_mode=%s rewind_mode=%s on memory_input<%s>' % (OPS[op], 'action' if a else 'nothing', 'optional' if m else 'required', tr))
            out.append(j)
    return out
