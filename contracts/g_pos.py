"""group `pos`: position bookkeeping primitives (C06): internal::bump against the fold of the
one-byte step, bump_in_this_line / bump_to_next_line closed forms, memory_input bump wrappers."""
from vfcore import R, E, A, Contract, Job
from common import *

NAME = 'pos'
ASSUMPTIONS = ['C06 closed form (count of eol characters / bytes since the last one) equals the fold of the one-byte step by induction (paper step)']

TU = TU_PROLOGUE + r'''
namespace vf {
auto root_bump(internal::inputerator& it, std::size_t count, int ch) { return internal::bump(it, count, ch); }
auto root_bump_small(internal::inputerator& it, std::size_t count, int ch) { return internal::bump(it, count, ch); }
auto root_bump_in_this_line(internal::inputerator& it, std::size_t count) { return internal::bump_in_this_line(it, count); }
auto root_bump_to_next_line(internal::inputerator& it, std::size_t count) { return internal::bump_to_next_line(it, count); }
}
'''


def tu():
    return TU


PRE_STUB = '''
/* the same text is used where the contract is enforced (this group) and where it replaces a call */
/* the window is the object g_buf of exactly g_n bytes (allocated by the harness): arithmetic facts only, so that the
   clause can also be discharged for a cursor that a stub has just havocked */
#define IT_PRE_WIN(it, count) (__CPROVER_r_ok(it, sizeof(*(it))) && g_n <= MAXN && __CPROVER_same_object((it)->data, g_buf) && OFF((it)->data) + (count) <= g_n && OFF(g_buf) == 0)
#define IT_PRE_CNT(it) ((it)->line >= 1 && (it)->column >= 1 && (it)->byte < ((size_t)1<<63) && (it)->line < ((size_t)1<<63) && (it)->column < ((size_t)1<<63))
#define IT_PRE(it, count) (IT_PRE_WIN(it, count) && IT_PRE_CNT(it))
#define ADVANCED(it, count) (__CPROVER_same_object((it)->data, OLD((it)->data)) && OFF((it)->data) == OFF(OLD((it)->data)) + (count) \\
   && (it)->byte == OLD((it)->byte) + (count))
'''

PRE = '''
#include "spec_enc.h"
size_t g_n; _Bool vf_canary; const char* g_buf;
#define MAXN %d
#define OFF(p) __CPROVER_POINTER_OFFSET(p)
#define OLD(x) __CPROVER_old(x)
/* ghost fold state: own index, own copy of the data pointer (never the program's loop variable) */
size_t g_i, g_line, g_col; const char* g_data;
''' % MAXN + PRE_STUB

HARNESS = '''
size_t w_n, w_k, w_count, w_line, w_col; int w_ch; unsigned char w_b[8];
int main(void)
{
  __CPROVER_assume(g_n <= MAXN);
  char* buf = malloc(g_n); __CPROVER_assume(buf != 0); g_buf = buf;
  size_t k, count; int ch;
  __CPROVER_assume(k <= g_n && count <= g_n - k %s);
  struct S_inputerator_T it;
  it.data = buf + k;
  __CPROVER_assume(it.line >= 1 && it.column >= 1 && it.byte < ((size_t)1<<63) && it.line < ((size_t)1<<63) && it.column < ((size_t)1<<63));
  w_n = g_n; w_k = k; w_count = count; w_ch = ch; w_line = it.line; w_col = it.column;
  for (int i = 0; i < 8; ++i) if (k + i < g_n) w_b[i] = (unsigned char)buf[k + i];
  g_i = 0; g_line = it.line; g_col = it.column; g_data = it.data;
  %s;
  return 0;
}
'''


def bump_small_contract(canary=True):
    """internal::bump for count <= 8 against the spec fold vf_pos_line / vf_pos_col"""
    c = Contract(
        R('count <= 8 && IT_PRE_WIN(iter, count)', 'bump-pre', ('C03', 'C06')), R('IT_PRE_CNT(iter)', 'bump-pre-counters', ('C06',)),
        A('*iter, iter->data, iter->byte, iter->line, iter->column'),
        E('ADVANCED(iter, count)', 'BUMP-ADV', ('C06', 'C03')),
        E('iter->line == vf_pos_line(OLD(iter->data), count, OLD(iter->line), ch)', 'BUMP-LINE', ('C06',)),
        E('iter->column == vf_pos_col(OLD(iter->data), count, OLD(iter->column), ch)', 'BUMP-COL', ('C06',)),
    )
    if canary:
        c.add(E('vf_canary', 'canary_exit'))
    return c


def itl_contract(canary=True):
    c = Contract(
        R('IT_PRE_WIN(iter, count)', 'bump-pre', ('C03', 'C06')), R('IT_PRE_CNT(iter)', 'bump-pre-counters', ('C06',)),
        A('*iter, iter->data, iter->byte, iter->line, iter->column'),
        E('ADVANCED(iter, count)', 'BUMP-ADV', ('C06', 'C03')),
        E('iter->line == OLD(iter->line) && iter->column == OLD(iter->column) + count', 'BUMP-ITL', ('C06',)),
    )
    if canary:
        c.add(E('vf_canary', 'canary_exit'))
    return c


def tnl_contract(canary=True):
    c = Contract(
        R('IT_PRE_WIN(iter, count)', 'bump-pre', ('C03', 'C06')), R('IT_PRE_CNT(iter)', 'bump-pre-counters', ('C06',)),
        A('*iter, iter->data, iter->byte, iter->line, iter->column'),
        E('ADVANCED(iter, count)', 'BUMP-ADV', ('C06', 'C03')),
        E('iter->line == OLD(iter->line) + 1 && iter->column == 1', 'BUMP-TNL', ('C06',)),
    )
    if canary:
        c.add(E('vf_canary', 'canary_exit'))
    return c


# stubs used by other groups: calls to the three primitives are replaced by these contracts,
# so the call-site obligation is `<fn>.precondition` (count within the window, C03).
def pos_stubs():
    return [
        (r'^tao::pegtl::internal::bump\(', bump_small_contract(False), 'opt'),
        (r'^tao::pegtl::internal::bump_in_this_line\(', itl_contract(False), 'opt'),
        (r'^tao::pegtl::internal::bump_to_next_line\(', tnl_contract(False), 'opt'),
    ]


def jobs(tier):
    out = []
    # (a) complete unwinding for count <= 8 against the spec fold
    j = Job('bump_small', NAME, 'bump_small', bump_small_contract(), ('C06',), prelude=PRE,
            harness=HARNESS.replace('S_inputerator_T', '$REC{tao::pegtl::internal::inputerator}') % ('&& count <= 8', '$ENTRY(&it, count, ch)'),
            unwind=10, expect_fail_canary=('canary_exit',),
            desc='internal::bump, count <= 8, complete unwinding (unwinding assertions on) against the spec fold')
    out.append(j)
    # (b) unbounded: the loop is the fold of the one-byte step (ghost fold with its own index)
    con = Contract(
        R('IT_PRE(iter, count) && g_i == 0 && g_line == iter->line && g_col == iter->column && g_data == iter->data', 'bump-pre'),
        A('*iter, iter->data, iter->byte, iter->line, iter->column, g_i, g_line, g_col'),
        E('ADVANCED(iter, count)', 'BUMP-ADV', ('C06', 'C03')),
        E('g_i == count', 'BUMP-FOLD-ALL', ('C06',)),
        E('iter->line == g_line && iter->column == g_col', 'BUMP-FOLD', ('C06',)),
        E('vf_canary', 'canary_exit'),
    )
    j = Job('bump_fold', NAME, 'bump', con, ('C06',), prelude=PRE,
            harness=HARNESS.replace('S_inputerator_T', '$REC{tao::pegtl::internal::inputerator}') % ('', '$ENTRY(&it, count, ch)'),
            loops={(r'^tao::pegtl::internal::bump\(', 1):
                   '__CPROVER_assigns(i, iter->line, iter->column, g_i, g_line, g_col)\n'
                   '__CPROVER_loop_invariant(i <= count && g_i == i && iter->line == g_line && iter->column == g_col'
                   ' && g_line >= 1 && g_col >= 1 && g_line <= __CPROVER_loop_entry(iter->line) + i'
                   ' && g_col <= __CPROVER_loop_entry(iter->column) + i'
                   ' && iter->data == __CPROVER_loop_entry(iter->data) && iter->byte == __CPROVER_loop_entry(iter->byte)'
                   ' && g_data == __CPROVER_loop_entry(g_data))\n'
                   '__CPROVER_decreases(count - i)'},
            expect_fail_canary=('canary_exit',),
            desc='internal::bump, any count: loop == fold of the one-byte position step (ghost fold, own index)')
    j.ghost = {(r'^tao::pegtl::internal::bump\(', 1):
               '{ if (g_data[g_i] == ch) { g_line = g_line + 1; g_col = 1; } else { g_col = g_col + 1; } g_i = g_i + 1; }'}
    out.append(j)
    out.append(Job('bump_in_this_line', NAME, 'bump_in_this_line', itl_contract(), ('C06',), prelude=PRE,
                   harness=HARNESS.replace('S_inputerator_T', '$REC{tao::pegtl::internal::inputerator}') % ('', '$ENTRY(&it, count)'),
                   desc='internal::bump_in_this_line closed form'))
    out.append(Job('bump_to_next_line', NAME, 'bump_to_next_line', tnl_contract(), ('C06',), prelude=PRE,
                   harness=HARNESS.replace('S_inputerator_T', '$REC{tao::pegtl::internal::inputerator}') % ('', '$ENTRY(&it, count)'),
                   desc='internal::bump_to_next_line closed form'))
    return out
