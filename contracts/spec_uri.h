/* RFC 3986 section 3.2.2 recognisers and PEG prefix lengths (C20): one text for the CBMC contracts (contracts/g_uri.py)
   and for the bounded native enumeration (bounded/ipv6_enum.cpp) */
#ifndef VF_SPEC_URI_H
#define VF_SPEC_URI_H

/* ---- RFC 3986 3.2.2, written from the RFC (not from uri.hpp); every loop has a constant bound ---- */
#define VF_ISDIG(c) ((c) >= '0' && (c) <= '9')
#define VF_ISHEX(c) (VF_ISDIG(c) || ((c) >= 'a' && (c) <= 'f') || ((c) >= 'A' && (c) <= 'F'))
/* dec-octet = DIGIT / %x31-39 DIGIT / "1" 2DIGIT / "2" %x30-34 DIGIT / "25" %x30-35 ; the run of digits at p must be one: returns its length, 0 = none */
static inline size_t vf_dec_octet_len(const vf_u8* p, size_t n)
{
  size_t d = 0;
  for (int j = 0; j < 4; ++j) if (d == (size_t)j && (size_t)j < n && VF_ISDIG(p[j])) d++;
  if (d == 0 || d > 3) return 0;
  if (d == 1) return 1;
  if (p[0] == '0') return 0;
  if (d == 2) return 2;
  if (p[0] == '1') return 3;
  if (p[0] == '2' && p[1] <= '4') return 3;
  if (p[0] == '2' && p[1] == '5' && p[2] <= '5') return 3;
  return 0;
}
static inline _Bool vf_ipv4_spec(const vf_u8* p, size_t n)
{
  size_t i = 0;
  for (int k = 0; k < 4; ++k) {
    size_t d = vf_dec_octet_len(p + i, n - i);
    if (d == 0) return 0;
    i += d;
    if (k < 3) { if (i >= n || p[i] != '.') return 0; i++; }
  }
  return i == n;
}
static inline size_t vf_hexrun(const vf_u8* p, size_t n)   /* hex digits at p, counted up to 5 */
{
  size_t h = 0;
  for (int j = 0; j < 5; ++j) if (h == (size_t)j && (size_t)j < n && VF_ISHEX(p[j])) h++;
  return h;
}
static inline _Bool vf_h16_spec(const vf_u8* p, size_t n) { return n >= 1 && n <= 4 && vf_hexrun(p, n) == n; }
static inline _Bool vf_ls32_spec(const vf_u8* p, size_t n)
{
  if (vf_ipv4_spec(p, n)) return 1;
  size_t h = vf_hexrun(p, n);
  if (h < 1 || h > 4 || h >= n || p[h] != ':') return 0;
  return vf_h16_spec(p + h + 1, n - h - 1);
}
static inline _Bool vf_ipv6_spec(const vf_u8* p, size_t n)
{
  if (n > 45 || n < 2) return 0;
  size_t i = 0; int seen = 0, left = 0, right = 0; _Bool done = 0, bad = 0;
  if (p[0] == ':') { if (p[1] != ':') return 0; seen = 1; i = 2; if (i == n) done = 1; }
  for (int it = 0; it < 9; ++it) {
    if (!done && !bad) {
      if (vf_ipv4_spec(p + i, n - i)) { if (seen) right += 2; else left += 2; i = n; done = 1; }
      else {
        size_t h = vf_hexrun(p + i, n - i);
        if (h < 1 || h > 4) bad = 1;
        else {
          i += h; if (seen) right++; else left++;
          if (i == n) done = 1;
          else if (p[i] != ':') bad = 1;
          else if (i + 1 < n && p[i + 1] == ':') { if (seen) bad = 1; else { seen = 1; i += 2; if (i == n) done = 1; } }
          else { i += 1; if (i == n) bad = 1; }
        }
      }
    }
  }
  if (bad || !done) return 0;
  return seen ? (left + right <= 7) : (left == 8);
}

/* ---- PEG prefix lengths of the components (what the real rules consume when something may follow): 0 = local failure ---- */
static inline size_t vf_h16_len(const vf_u8* p, size_t n) { size_t h = vf_hexrun(p, n); return (h >= 1 && h <= 4) ? h : 0; }   /* rep_min_max<1,4,HEXDIG>: not followed by a fifth */
static inline size_t vf_ipv4_len(const vf_u8* p, size_t n)
{
  size_t i = 0;
  for (int k = 0; k < 4; ++k) {
    size_t d = vf_dec_octet_len(p + i, n - i);
    if (d == 0) return 0;
    i += d;
    if (k < 3) { if (i >= n || p[i] != '.') return 0; i++; }
  }
  return i;
}
static inline size_t vf_ls32_len(const vf_u8* p, size_t n)   /* sor< seq< h16, ':', h16 >, IPv4address > */
{
  size_t h = vf_h16_len(p, n);
  if (h != 0 && h < n && p[h] == ':') { size_t h2 = vf_h16_len(p + h + 1, n - h - 1); if (h2 != 0) return h + 1 + h2; }
  return vf_ipv4_len(p, n);
}
/* rep< N, h16, ':' > : N groups each followed by a colon; 0 = local failure (N >= 1) */
static inline size_t vf_rep_len(const vf_u8* p, size_t n, int N)
{
  size_t i = 0; _Bool ok = 1;
  for (int j = 0; j < 6; ++j) if (ok && j < N) {
    size_t h = vf_h16_len(p + i, n - i);
    if (h == 0 || i + h >= n || p[i + h] != ':') ok = 0; else i += h + 1;
  }
  return ok ? i : 0;
}
/* opt< h16, rep_opt< K, ':', h16 > > : never fails; greedy, each further group only together with its colon */
static inline size_t vf_left_len(const vf_u8* p, size_t n, int K)
{
  size_t h = vf_h16_len(p, n);
  if (h == 0) return 0;
  size_t i = h; _Bool go = 1;
  for (int j = 0; j < 6; ++j) if (go && j < K) {
    if (i < n && p[i] == ':') { size_t h2 = vf_h16_len(p + i + 1, n - i - 1); if (h2 != 0) i += 1 + h2; else go = 0; }
    else go = 0;
  }
  return i;
}
static inline _Bool vf_dec_octet_len_all(const vf_u8* p, size_t n) { size_t d = vf_dec_octet_len(p, n); return d != 0 && d == n; }

#endif
