"""group `raw`: contrib/raw_string.hpp (C16): raw_string_open, at_raw_string_close (against bracket
predicates stated with ghost probe / witness indices), raw_string_until x2 (first-true-position
protocol over an oracle condition), raw_string::match (open, content, closing bracket)."""
from vfcore import R, E, A, Contract, Job, Clause
from common import *
import g_pos

NAME = 'raw'
ASSUMPTIONS = [
    '"first closing long bracket of the same level" = composition of (i) raw_string_until stops at the first position where its condition holds (proved for an oracle condition) and (ii) at_raw_string_close holds exactly at closing brackets of the given level (proved both directions); the composition itself is a paper step',
    'raw_string::match is proved against oracle stubs for raw_string_open and for its content rule that carry the contracts proved for them',
]

TU_EXTRA = r'''
#include <tao/pegtl/contrib/raw_string.hpp>
namespace vf {
using RS = raw_string< '[', '=', ']' >;
}
'''
AM = [(a, m) for a in (0, 1) for m in (0, 1)]


def rname(op, a, m, tr):
    return '%s_A%dM%d_%s' % (op, a, m, 'e' if tr == 'eager' else 'l')


OPS = {
    'rsopen': ("internal::raw_string_open< '[', '=' >::match< A%d, M%d, nothing, normal >( in, ms )", ', std::size_t& ms'),
    'rsclose': ("internal::at_raw_string_close< '=', ']' >::match< A%d, M%d, nothing, normal >( in, ms )", ', const std::size_t& ms'),
    'rsuntil1': ('internal::raw_string_until< R<0> >::match< A%d, M%d, nothing, normal >( in, ms )', ', const std::size_t& ms'),
    'rsuntil2': ('internal::raw_string_until< R<0>, R<1> >::match< A%d, M%d, nothing, normal >( in, ms )', ', const std::size_t& ms'),
    'rs': ('RS::match< A%d, M%d, nothing, normal >( in )', ''),
}


def tu_for(tracking):
    s = TU_PROLOGUE + TU_EXTRA
    for op, (expr, extra) in OPS.items():
        for a, m in AM:
            s += tu_root(rname(op, a, m, tracking), INPUT_TYPES[(tracking, 'lf_crlf')], expr % (a, m), extra)
    if tracking == 'eager':
        for pol in POLICIES[1:]:
            s += tu_root('rsopen_%s_A1M0_e' % pol, INPUT_TYPES[('eager', pol)], OPS['rsopen'][0] % (1, 0), OPS['rsopen'][1])
    return s


SUBGROUPS = {'raw_e': lambda: tu_for('eager'), 'raw_l': lambda: tu_for('lazy')}

PRE = '''
#define OPENC '['
#define MARKC '='
#define CLOSEC ']'
size_t g_k;            /* ghost probe index (unconstrained): a clause proved for it holds for every index */
size_t g_i;            /* ghost: scan progress of the marker loop, own counter */
const char* g_p0;      /* ghost: cursor at entry */
#define P0 g_p0
static inline size_t vf_eol_len_lf_crlf(const char* p, size_t avail)
{ if (avail == 0) return 0; if (p[0] == '\\n') return 1; return (avail >= 2 && p[0] == '\\r' && p[1] == '\\n') ? 2 : 0; }
/* documented line endings of the other policies: 1 lf, 2 cr, 3 crlf, 4 cr_crlf */
static inline size_t vf_eol_len_pol(const char* p, size_t avail, int policy)
{
  if (avail == 0) return 0;
  switch (policy) {
    case 0: return vf_eol_len_lf_crlf(p, avail);
    case 1: return p[0] == '\\n' ? 1 : 0;
    case 2: return p[0] == '\\r' ? 1 : 0;
    case 3: return (avail >= 2 && p[0] == '\\r' && p[1] == '\\n') ? 2 : 0;
    default: if (p[0] != '\\r') return 0; return (avail >= 2 && p[1] == '\\n') ? 2 : 1;
  }
}
'''
POLICIES = ['lf_crlf', 'lf', 'cr', 'crlf', 'cr_crlf']


def open_contract(tr, pol='lf_crlf'):
    c = Contract(
        R('VALID_PRE(in) && __CPROVER_w_ok(marker_size, sizeof(size_t)) && g_p0 == CUR(in) && g_i == 1 && vf_exc.pending == 0', 'pre'),
        Clause('assigns', 'IT_FIELDS(in), *marker_size, g_i'),
        E('VALID_POST(in)', 'RC-VALID', ('C02', 'C03')),
        E('MONO(in)', 'RC-MONO', ('C02',)),
        E('!RET ==> ITER_UNCHANGED(in)', 'RC-REWIND', ('C02',)),
        E('RET ==> (*marker_size >= 2 && *marker_size <= AVAIL_OLD(in) && P0[0] == OPENC && P0[*marker_size - 1] == OPENC'
          ' && ((g_k >= 1 && g_k < *marker_size - 1) ==> P0[g_k] == MARKC))', 'OPEN-IS-A-LONG-BRACKET-OF-LEVEL-N', ('C16',)),
        E('RET ==> CONSUMED(in) == *marker_size + vf_eol_len_pol(P0 + *marker_size, AVAIL_OLD(in) - *marker_size, %d)' % POLICIES.index(pol), 'OPEN-SKIPS-ONE-IMMEDIATE-LINE-ENDING-OF-THE-INPUTS-EOL-POLICY', ('C16',)),
        E('!RET ==> (AVAIL_OLD(in) == 0 || P0[0] != OPENC || (g_i >= 1 && g_i <= AVAIL_OLD(in) && ((g_k >= 1 && g_k < g_i) ==> P0[g_k] == MARKC)'
          ' && (g_i == AVAIL_OLD(in) || (P0[g_i] != MARKC && P0[g_i] != OPENC))))', 'OPEN-REJECTS-ONLY-NON-BRACKETS', ('C16',)),
        E('!RET || vf_canary', 'canary_ok'), E('RET || vf_canary', 'canary_fail'))
    if tr == 'eager':
        c.clauses.insert(7, E('RET ==> (BYTE(in) == OLD(BYTE(in)) + CONSUMED(in))', 'RC-POS-BYTE', ('C06',)))
    return c


OPEN_LOOP = ('__CPROVER_assigns(i, g_i)\n'
             '__CPROVER_loop_invariant(i >= 1 && i == g_i && i <= g_n - OFF(g_p0) && ITER_UNCHANGED_LOOP(in) && PTRS_OK(in)'
             ' && ((g_k >= 1 && g_k < i) ==> g_p0[g_k] == MARKC) && g_p0[0] == OPENC && __CPROVER_same_object(g_p0, CUR(in)) && OFF(g_p0) == OFF(CUR(in)))')


def close_contract(tr):
    return Contract(
        R('VALID_PRE(in) && __CPROVER_r_ok(marker_size, sizeof(size_t)) && *marker_size >= 2 && g_p0 == CUR(in) && g_i == 0 && vf_exc.pending == 0', 'close-pre-marker-size-at-least-2', ('C16', 'C03')),
        Clause('assigns', 'g_i'),
        E('ITER_UNCHANGED(in) && VALID_POST(in)', 'RC-LOOK', ('C02', 'C16')),
        E('RET ==> (*marker_size <= AVAIL_OLD(in) && P0[0] == CLOSEC && P0[*marker_size - 1] == CLOSEC'
          ' && ((g_k >= 1 && g_k < *marker_size - 1) ==> P0[g_k] == MARKC))', 'CLOSE-ACCEPTS-ONLY-BRACKETS-OF-THE-SAME-LEVEL', ('C16',)),
        E('!RET ==> (*marker_size > AVAIL_OLD(in) || P0[0] != CLOSEC || P0[*marker_size - 1] != CLOSEC'
          ' || (g_i < *marker_size - 2 && P0[g_i + 1] != MARKC))', 'CLOSE-REJECTS-ONLY-NON-BRACKETS', ('C16',)),
        E('!RET || vf_canary', 'canary_ok'), E('RET || vf_canary', 'canary_fail'))


CLOSE_LOOP = ('__CPROVER_assigns(i, g_i)\n'
              '__CPROVER_loop_invariant(i == g_i && i <= *marker_size - 2 && *marker_size >= 2 && *marker_size <= g_n - OFF(g_p0) && ITER_UNCHANGED_LOOP(in) && PTRS_OK(in)'
              ' && ((g_k >= 1 && g_k <= i) ==> g_p0[g_k] == MARKC) && __CPROVER_same_object(g_p0, CUR(in)) && OFF(g_p0) == OFF(CUR(in)))')

GH = 'g_turn, g_pos, g_done, g_iter, g_last, g_called[0], g_ok[0], g_len[0], g_ncalls[0], g_ae[0], g_re[0], g_lp[0], g_called[1], g_ok[1], g_len[1], g_ncalls[1], g_ae[1], g_re[1], g_lp[1], g_cur, vf_exc, vf_exc_counter, g_exc_obj, g_exc_type'


def until_loop(extra=''):
    return ('__CPROVER_assigns(IT_FIELDS(in), %s)\n'
            '__CPROVER_loop_invariant(VALID_STUB(in) && EXC_OK && g_done == 0 && g_turn == 0 && OFF(CUR(in)) == g_pos'
            ' && IN_END(in) == __CPROVER_loop_entry(IN_END(in)) && IN_BEGIN(in) == __CPROVER_loop_entry(IN_BEGIN(in))'
            ' && OFF(CUR(in)) >= OFF(__CPROVER_loop_entry(CUR(in))) && OFF(CUR(in)) <= g_n %s)') % (GH, extra)


def ms_stub(spec, which_ms):
    """oracle stubs; those listed in which_ms must be called with the marker size of the caller"""
    base = rule_stub(spec)

    def mk(fi):
        c = base(fi)
        i, a, m = parse_stub(fi)
        names = [p['name'] for p in fi.get('params', [])]
        if i in which_ms:
            if len(names) != 2:
                c.clauses.insert(1, R('0', 'condition-is-called-with-the-marker-size', ('C16',)))
            else:
                c.clauses.insert(1, R('__CPROVER_r_ok(%s, sizeof(size_t)) && *%s == g_ms' % (names[1], names[1]), 'condition-is-called-with-the-marker-size', ('C16',)))
        return c
    return mk


def jobs(tier):
    out = []
    for tr in ('eager', 'lazy'):
        grp = 'raw_e' if tr == 'eager' else 'raw_l'
        it = 'vf_' + INPUT_TYPES[(tr, 'lf_crlf')]
        lp = '#define ITER_UNCHANGED_LOOP(in) (CUR(in) == __CPROVER_loop_entry(CUR(in))%s)\n' % (
            ' && BYTE(in) == __CPROVER_loop_entry(BYTE(in)) && LINE(in) == __CPROVER_loop_entry(LINE(in)) && COL(in) == __CPROVER_loop_entry(COL(in))' if tr == 'eager' else '')
        for a, m in AM:
            if tier != 'thorough' and (tr == 'lazy' or a == 0) and not (a == 1 and m == 0 and tr == 'lazy'):
                if not (tr == 'eager'):
                    continue
            # (a) open
            j = Job(rname('rsopen', a, m, tr), grp, rname('rsopen', a, m, tr), open_contract(tr), ('C16', 'C02', 'C03', 'C06', 'C11'),
                    prelude=prelude(tr) + PRE + lp + g_pos.PRE_STUB, stubs=[],   # bump_in_this_line / bump_to_next_line run as real code: the bytes behind the new cursor are read afterwards
                    loops={(r'internal::raw_string_open<.*>::match<', 1): OPEN_LOOP},
                    harness=input_harness(it, tr, 'w_ret = $ENTRY(&in, &ms)', extra_decl='  size_t ms;\n', pre_call='  g_p0 = CUR(&in); g_i = 1; vf_exc.pending = 0;\n'),
                    expect_fail_canary=canaries(), desc='raw_string_open<[,=>::match on memory_input<%s>' % tr)
            j.ghost = {(r'internal::raw_string_open<.*>::match<', 1): '{ g_i = g_i + 1; }'}
            out.append(j)
            if tr == 'eager' and a == 1 and m == 0:
                for pol in POLICIES[1:]:
                    nm = 'rsopen_%s_A1M0_e' % pol
                    j = Job(nm, grp, nm, open_contract(tr, pol), ('C16', 'C02', 'C03', 'C06'),
                            prelude=prelude(tr) + PRE + lp + g_pos.PRE_STUB, stubs=[],
                            loops={(r'internal::raw_string_open<.*>::match<', 1): OPEN_LOOP},
                            harness=input_harness('vf_' + INPUT_TYPES[('eager', pol)], tr, 'w_ret = $ENTRY(&in, &ms)', extra_decl='  size_t ms;\n', pre_call='  g_p0 = CUR(&in); g_i = 1; vf_exc.pending = 0;\n'),
                            expect_fail_canary=canaries(), desc='raw_string_open<[,=>::match on memory_input<eager, eol::%s>' % pol)
                    j.ghost = {(r'internal::raw_string_open<.*>::match<', 1): '{ g_i = g_i + 1; }'}
                    out.append(j)
            # (b) close
            j = Job(rname('rsclose', a, m, tr), grp, rname('rsclose', a, m, tr), close_contract(tr), ('C16', 'C02', 'C03'),
                    prelude=prelude(tr) + PRE + lp, loops={(r'internal::at_raw_string_close<.*>::match<', 1): CLOSE_LOOP},
                    harness=input_harness(it, tr, 'w_ret = $ENTRY(&in, &ms)', extra_decl='  size_t ms; __CPROVER_assume(ms >= 2);\n', pre_call='  g_p0 = CUR(&in); g_i = 0; vf_exc.pending = 0;\n'),
                    expect_fail_canary=canaries(), desc='at_raw_string_close<=,]>::match on memory_input<%s>' % tr)
            j.ghost = {(r'internal::at_raw_string_close<.*>::match<', 1): '{ g_i = g_i + 1; }'}
            out.append(j)
            # (c) until
            for op in ('rsuntil1', 'rsuntil2'):
                if op == 'rsuntil1':
                    spec = {0: dict(A=str(a), M='0', next_ok='T_NONE', next_fail='0', pos_fail='same')}
                    post = [E('!vf_exc.pending ==> (RET == (g_last == 0 && g_ok[0]))', 'UNTIL-STOPS-AT-FIRST-POSITION-WHERE-COND-HOLDS', ('C16',)),
                            E('(!vf_exc.pending && !RET) ==> (g_pos == g_n && g_called[0] && !g_ok[0])', 'UNTIL-FAILS-ONLY-AT-END-OF-INPUT', ('C16',)),
                            E('(!vf_exc.pending && RET) ==> OFF(CUR(in)) == g_pos', 'UNTIL-CONSUMED', ('C16',))]
                    loops = {(r'internal::raw_string_until<.*>::match<', 1): until_loop('&& CNT_LOOP_OK(in)')}
                    ghost = {(r'internal::raw_string_until<.*>::match<', 1): '{ g_pos = g_pos + 1; }'}
                    stubs = [(r'^bool vf::R<\d+>::match<', ms_stub(spec, (0,)))] + g_pos.pos_stubs()
                else:
                    spec = {0: dict(A=str(a), M='0', next_ok='T_NONE', next_fail='1', pos_fail='same'),
                            1: dict(A=str(a), next_ok='0', next_fail='T_NONE')}
                    post = [E('!vf_exc.pending ==> (RET == (g_last == 0 && g_ok[0]))', 'UNTIL-STOPS-AT-FIRST-POSITION-WHERE-COND-HOLDS', ('C16',)),
                            E('(!vf_exc.pending && !RET) ==> (g_last == 1 && !g_ok[1])', 'UNTIL-FAILS-ONLY-WHEN-CONTENT-FAILS', ('C16',)),
                            E('(!vf_exc.pending && RET) ==> OFF(CUR(in)) == g_pos', 'UNTIL-CONSUMED', ('C16',))]
                    # C11: the content loop of raw_string< O, M, C, Contents... > as the analysis models it: the traits of the rule with one
                    # content rule are read from the real headers; the content rule is R<0> there and R<1> in this job
                    trc = traits_of(NAME + '_contents', {'rsc': "raw_string< '[', '=', ']', R<0> >"}, includes=('tao/pegtl/contrib/raw_string.hpp',))['rsc']
                    back = None if trc is None or trc['back'] is None else trc['back'].replace('g_c[0]', 'g_c[1]')
                    if trc is not None and back != '0':
                        cl = '!g_re[1]' if back is None else '(%s) ==> !g_re[1]' % back
                        post.append(E(cl, 'ANALYZE-TRAIT-REPETITION-MAKES-PROGRESS' if back is not None else 'ANALYZE-TRAIT-WITHOUT-BACK-REFERENCE-NO-REPETITION-IN-PLACE', ('C11',)))
                        inv = '!g_re[1] && (g_ncalls[1] > 0 ==> g_lp[1] < g_pos)'
                        c11inv = '/*@IF C11@*/ && %s/*@FI@*/' % (inv if back is None else '((%s) ==> (%s))' % (back, inv))
                    else:
                        c11inv = ''
                    loops = {(r'internal::raw_string_until<.*>::match<', 1): until_loop(c11inv)}
                    ghost = {}
                    stubs = [(r'^bool vf::R<\d+>::match<', ms_stub(spec, (0,)))]
                con = Contract(comb_requires(), R('__CPROVER_r_ok(marker_size, sizeof(size_t)) && *marker_size == g_ms', 'ms-pre'), comb_assigns())
                for c in comb_common(m):
                    con.add(c)
                for c in post:
                    con.add(c)
                con.add(E('vf_canary', 'canary_exit'))
                j = Job(rname(op, a, m, tr), grp, rname(op, a, m, tr), con, ('C16', 'C02') + (('C11',) if op == 'rsuntil2' else ()), stubs=stubs, loops=loops,
                        prelude=comb_prelude(tr) + 'size_t g_ms;\n' + g_pos.PRE_STUB,
                        harness=comb_harness(it, tr, 'w_ret = $ENTRY(&in, &ms)').replace('int main(void)\n{', 'int main(void)\n{\n  size_t ms; g_ms = ms;'),
                        expect_fail_canary=('canary_exit',), desc='%s on memory_input<%s>' % (OPS[op][0] % (a, m), tr))
                j.ghost = ghost
                out.append(j)
            # (d) raw_string::match against stubs for open and content
            con = Contract(R('VALID_PRE(in) && EXC_OK && g_st == 0 && g_e_off == OFF(CUR(in)) && vf_exc_counter < 1000000 && g_exc_obj == 0'),
                           Clause('assigns', 'IT_FIELDS(in), g_st, g_ms, g_after_open, g_close, vf_exc, vf_exc_counter, g_exc_obj, g_exc_type'),
                           E('VALID_POST(in)', 'RC-VALID', ('C02', 'C03')), E('MONO(in)', 'RC-MONO', ('C02',)),
                           (E('(!vf_exc.pending && !RET) ==> ITER_UNCHANGED(in)', 'RC-REWIND', ('C02', 'C16')) if m == 0 else None),
                           E('(!vf_exc.pending && RET) ==> (g_st == 2 && OFF(CUR(in)) == g_close + g_ms)', 'RAWSTRING-CONSUMES-THROUGH-THE-CLOSING-BRACKET', ('C16',)),
                           E('(!vf_exc.pending && !RET) ==> (g_st == 10 || g_st == 11)', 'RAWSTRING-FAILS-ONLY-WITHOUT-OPEN-OR-WITHOUT-CLOSE', ('C16',)),
                           E('vf_canary', 'canary_exit'))
            open_stub = Contract(
                R('VALID_STUB(in) && EXC_OK && g_st == 0 && OFF(CUR(in)) == g_e_off && __CPROVER_w_ok(marker_size, sizeof(size_t))', 'open-first-at-entry', ('C16',)),
                Clause('assigns', 'IT_FIELDS(in), *marker_size, g_st, g_ms, g_after_open'),
                E('BOOL01(RET) && PTRS_OK(in) && CNT_POS(in) && CNT_LT63(in) && IN_END(in)==OLD(IN_END(in)) && IN_BEGIN(in)==OLD(IN_BEGIN(in)) && MONO(in)', 'stub'),
                E('RET ==> (g_st == 1 && *marker_size == g_ms && g_ms >= 2 && g_ms <= CONSUMED(in) && g_after_open == OFF(CUR(in)))', 'stub'),
                E('!RET ==> (g_st == 10 && ITER_UNCHANGED(in))', 'stub'))
            content_stub = Contract(
                R('VALID_STUB(in) && EXC_OK && g_st == 1 && OFF(CUR(in)) == g_after_open && __CPROVER_r_ok(marker_size, sizeof(size_t)) && *marker_size == g_ms',
                  'content-after-open-with-the-same-marker-size', ('C16',)),
                Clause('assigns', 'IT_FIELDS(in), g_st, g_close, vf_exc, vf_exc_counter, g_exc_obj, g_exc_type'),
                E('BOOL01(RET) && BOOL01(vf_exc.pending) && PTRS_OK(in) && CNT_POS(in) && CNT_LT63(in) && IN_END(in)==OLD(IN_END(in)) && IN_BEGIN(in)==OLD(IN_BEGIN(in)) && MONO(in)', 'stub'),
                E('vf_exc.pending ==> (vf_exc.obj == OLD(vf_exc_counter) + 1 && vf_exc_counter == vf_exc.obj && g_exc_obj == vf_exc.obj && g_exc_type == vf_exc.type && g_exc_obj != 0)', 'stub'),
                E('!vf_exc.pending ==> (g_exc_obj == OLD(g_exc_obj) && g_exc_type == OLD(g_exc_type) && vf_exc_counter == OLD(vf_exc_counter))', 'stub'),
                E('(!vf_exc.pending && RET) ==> (g_st == 2 && g_close == OFF(CUR(in)) && g_close + g_ms <= g_n)', 'stub'),
                E('(!vf_exc.pending && !RET) ==> (g_st == 11)', 'stub'))
            if m == 0:
                content_stub.add(E('(!vf_exc.pending && !RET) ==> ITER_UNCHANGED(in)', 'stub'))
            for c in c11_leaf(traits_of(NAME, {'rs': 'RS'}, decls=TU_EXTRA, includes=('tao/pegtl/contrib/raw_string.hpp',))['rs']):
                con.add(c)
            j = Job(rname('rs', a, m, tr), grp, rname('rs', a, m, tr), con, ('C16', 'C02', 'C03', 'C11'),
                    stubs=[(r'^bool tao::pegtl::internal::raw_string_open<.*>::match<', open_stub), (r'^bool tao::pegtl::internal::raw_string_until<.*>::match<', (lambda fi, cs=content_stub: cs if fi.get('may_throw') else Contract(*(cs.clauses + [E('vf_exc.pending == 0', 'stub')]))))] + g_pos.pos_stubs(),   # the lowering found that this instantiation cannot throw: then neither may its stub
                    prelude=comb_prelude(tr) + 'int g_st; size_t g_ms, g_after_open, g_close;\n' + g_pos.PRE_STUB,
                    harness=comb_harness(it, tr, 'w_ret = $ENTRY(&in)').replace('vf_exc.pending = 0;', 'vf_exc.pending = 0; g_st = 0;'),
                    expect_fail_canary=('canary_exit',), desc='raw_string<[,=,]>::match apply=%d rewind=%d on memory_input<%s>' % (a, m, tr))
            out.append(j)
    return out
