"""C11, part (i): bounded native stand-in for analyze_cycles_impl::work() (see bounded/analyze_work.cpp).
Labelled bounded, never counted as proved. Part (ii), the per-rule premises (trait conservativeness and
RC-PROGRESS), are contract clauses tagged C11 in the other groups."""
NAME = 'analyze'
ASSUMPTIONS = ['the oracle of the bounded stand-in treats every rule as able to fail and a sub-rule as called at the start position iff the sub-rules before it are nullable (least fixed point): the abstract semantics the analysis itself documents for its four types']


def tu():
    return ''


def jobs(tier):
    return []


def native_checks(tier):
    nmax = 3
    return [dict(name='analyze_work_bounded', props=('C11',), src='bounded/analyze_work.cpp', args=[str(nmax)],
                 bound='all abstract grammars with <= %d names, <= 2 sub-rules per rule, 4 analyze types (exhaustive enumeration, native execution of the real analyze_cycles_impl)' % nmax)]
