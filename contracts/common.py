"""shared contract vocabulary (DESIGN.md section 4 / appendix B)"""
from vfcore import R, E, A, Contract, Clause, Job

COMMON_ASSUMPTIONS = [
    'target model x86-64 LP64, char signed (same as the baseline build)',
    'position counters byte/line/column below 2^62 on entry (machine arithmetic treated as non-wrapping)',
    'input windows of at most 4096 bytes in proofs that allocate the buffer (no length-dependent branch other than comparisons with small template constants)',
    'Source = const char* instantiation of memory_input (Source occurs in no verified function except as an opaque member)',
    'dropped by the lowering: constexpr evaluation, overload/template selection (taken as clang resolved them), const/volatile qualifiers, access control, noexcept specifications (a throw escaping a noexcept function is an obligation "repo_terminate")',
    'exceptions are lowered single-phase to a pending flag (DESIGN.md 3.4)',
]

MAXN = 4096

EOLCH = {'lf': "'\\n'", 'cr': "'\\r'", 'crlf': "'\\n'", 'lf_crlf': "'\\n'", 'cr_crlf': "'\\r'"}

# --------------------------------------------------------------------- TU text
TU_PROLOGUE = r'''
#include <tao/pegtl.hpp>
#include <tao/pegtl/contrib/utf16.hpp>
#include <tao/pegtl/contrib/utf32.hpp>
#include <tao/pegtl/contrib/uint8.hpp>
#include <tao/pegtl/contrib/uint16.hpp>
#include <tao/pegtl/contrib/uint32.hpp>
#include <tao/pegtl/contrib/uint64.hpp>
#include <tao/pegtl/contrib/abnf.hpp>
namespace vf {
using namespace tao::pegtl;
// opaque sub-rule: declared, never defined -> becomes an oracle stub
template< int I > struct R {
   using rule_t = R; using subs_t = empty_list;
   template< apply_mode A, rewind_mode M, template< typename... > class Action, template< typename... > class Control, typename ParseInput, typename... States >
   [[nodiscard]] static bool match( ParseInput& in, States&&... st );
};
using InE  = memory_input< tracking_mode::eager, eol::lf_crlf, const char* >;
using InL  = memory_input< tracking_mode::lazy,  eol::lf_crlf, const char* >;
using InE_lf = memory_input< tracking_mode::eager, eol::lf, const char* >;
using InE_cr = memory_input< tracking_mode::eager, eol::cr, const char* >;
using InE_crlf = memory_input< tracking_mode::eager, eol::crlf, const char* >;
using InE_cr_crlf = memory_input< tracking_mode::eager, eol::cr_crlf, const char* >;
using InL_lf = memory_input< tracking_mode::lazy, eol::lf, const char* >;
using InL_cr = memory_input< tracking_mode::lazy, eol::cr, const char* >;
using InL_crlf = memory_input< tracking_mode::lazy, eol::crlf, const char* >;
using InL_cr_crlf = memory_input< tracking_mode::lazy, eol::cr_crlf, const char* >;
constexpr apply_mode A0 = apply_mode::nothing;  constexpr apply_mode A1 = apply_mode::action;
constexpr rewind_mode M0 = rewind_mode::required; constexpr rewind_mode M1 = rewind_mode::optional;
}
'''

INPUT_TYPES = {
    ('eager', 'lf_crlf'): 'InE', ('lazy', 'lf_crlf'): 'InL',
    ('eager', 'lf'): 'InE_lf', ('eager', 'cr'): 'InE_cr', ('eager', 'crlf'): 'InE_crlf', ('eager', 'cr_crlf'): 'InE_cr_crlf',
    ('lazy', 'lf'): 'InL_lf', ('lazy', 'cr'): 'InL_cr', ('lazy', 'crlf'): 'InL_crlf', ('lazy', 'cr_crlf'): 'InL_cr_crlf',
}


def tu_root(name, intype, expr, extra_params=''):
    return 'namespace vf { auto root_%s(%s& in%s) { return %s; } }\n' % (name, intype, extra_params, expr)


# ------------------------------------------------------------------ prelude
def prelude(tracking, base='_b0'):
    p = '''
#define INB(in) ((in)->%s)   /* the memory_input_base sub-object */
''' % base + '''
#include "spec_enc.h"
size_t g_n;                 /* ghost: size of the input window object */
const char* g_buf;          /* ghost: the window object itself (set by the harness) */
_Bool vf_canary;            /* always 0: clauses `X || vf_canary` must FAIL when X is reachable-false */
#define MAXN %d
#define OFF(p) __CPROVER_POINTER_OFFSET(p)
#define OLD(x) __CPROVER_old(x)
#define RET __CPROVER_return_value
#define IN_END(in) (INB(in).m_end)
''' % MAXN
    if tracking == 'eager':
        p += '''
#define IN_BEGIN(in) (INB(in).m_begin)
#define IT(in) (INB(in).m_current)
#define CUR(in) (INB(in).m_current.data)
/* assigns targets are listed field by field: havocking the struct as a whole makes CBMC lose the points-to set of .data */
#define IT_FIELDS(in) INB(in).m_current, INB(in).m_current.data, INB(in).m_current.byte, INB(in).m_current.line, INB(in).m_current.column
#define CNT_OK(in) (INB(in).m_current.line>=1 && INB(in).m_current.column>=1 \\
   && INB(in).m_current.byte < ((size_t)1<<62) && INB(in).m_current.line < ((size_t)1<<62) && INB(in).m_current.column < ((size_t)1<<62))
#define CNT_POS(in) (INB(in).m_current.line>=1 && INB(in).m_current.column>=1)
#define ITER_UNCHANGED(in) (CUR(in)==OLD(CUR(in)) && INB(in).m_current.byte==OLD(INB(in).m_current.byte) \\
   && INB(in).m_current.line==OLD(INB(in).m_current.line) && INB(in).m_current.column==OLD(INB(in).m_current.column))
/* every rule keeps the counters within what the consumed bytes allow (consequence of RC-POS) */
#define CNT_BOUNDED_BY(in, b0, l0, c0, off0) (INB(in).m_current.byte == (b0) + (OFF(CUR(in)) - (off0)) \
   && INB(in).m_current.line >= (l0) && INB(in).m_current.line <= (l0) + (OFF(CUR(in)) - (off0)) \
   && INB(in).m_current.column >= 1 && INB(in).m_current.column <= (c0) + (OFF(CUR(in)) - (off0)))
#define CNT_BOUNDED(in) CNT_BOUNDED_BY(in, OLD(BYTE(in)), OLD(LINE(in)), OLD(COL(in)), OFF(OLD(CUR(in))))
#define CNT_BOUNDED_LOOP(in) CNT_BOUNDED_BY(in, __CPROVER_loop_entry(BYTE(in)), __CPROVER_loop_entry(LINE(in)), __CPROVER_loop_entry(COL(in)), OFF(__CPROVER_loop_entry(CUR(in))))
#define CNT_LOOP_OK(in) (CNT_BOUNDED_BY(in, g_e_byte, g_e_line, g_e_col, g_e_off) && g_e_byte < ((size_t)1<<62) && g_e_line < ((size_t)1<<62) && g_e_col < ((size_t)1<<62))   /* relative to the entry iterator of the combinator */
#define CNT_LT63(in) (INB(in).m_current.byte < ((size_t)1<<63) && INB(in).m_current.line < ((size_t)1<<63) && INB(in).m_current.column < ((size_t)1<<63))
#define LINE(in) (INB(in).m_current.line)
#define COL(in) (INB(in).m_current.column)
#define BYTE(in) (INB(in).m_current.byte)
/* RC-POS: counters after consuming the bytes [old cursor, new cursor), at most 8 of them */
#define POS_AGREE(in, eolch) ( BYTE(in)==OLD(BYTE(in)) + (OFF(CUR(in))-OFF(OLD(CUR(in)))) \\
   && LINE(in)==vf_pos_line(OLD(CUR(in)), OFF(CUR(in))-OFF(OLD(CUR(in))), OLD(LINE(in)), eolch) \\
   && COL(in)==vf_pos_col(OLD(CUR(in)), OFF(CUR(in))-OFF(OLD(CUR(in))), OLD(COL(in)), eolch) )
'''
    else:
        p += '''
#define IN_BEGIN(in) (INB(in).m_begin.data)
#define IT(in) (INB(in).m_current)
#define CUR(in) (INB(in).m_current)
#define IT_FIELDS(in) INB(in).m_current
#define CNT_OK(in) 1
#define CNT_POS(in) 1
#define CNT_BOUNDED(in) 1
#define CNT_BOUNDED_LOOP(in) 1
#define CNT_LOOP_OK(in) 1
#define CNT_LT63(in) 1
#define ITER_UNCHANGED(in) (CUR(in)==OLD(CUR(in)))
#define POS_AGREE(in, eolch) 1
'''
    p += '''
/* pointer_in_range_dfcc: when assumed (stub postconditions, loop invariants) CBMC builds the cursor as begin + offset,
   so reads through the havocked cursor still see the window bytes */
#define PTRS_OK_BASE(in) (__CPROVER_same_object(IN_BEGIN(in),IN_END(in)) && OFF(IN_BEGIN(in))==0 && OFF(IN_END(in))==g_n \\
   && __CPROVER_same_object(CUR(in),IN_END(in)) && OFF(CUR(in))<=g_n)
#define PTRS_OK(in) PTRS_OK_BASE(in)
/* only in postconditions of stubs (assumed after the havoc of the iterator): rebuilds the cursor as begin + offset */
#define CUR_IN_WINDOW(in) __CPROVER_pointer_in_range_dfcc(IN_BEGIN(in), CUR(in), IN_END(in))
#define VALID_PRE(in) (__CPROVER_r_ok(in,sizeof(*(in))) && g_n<=MAXN && PTRS_OK(in) && CNT_OK(in) && __CPROVER_r_ok(IN_BEGIN(in),g_n))
#define VALID_POST(in) (PTRS_OK(in) && CNT_POS(in) && IN_END(in)==OLD(IN_END(in)) && IN_BEGIN(in)==OLD(IN_BEGIN(in)))
#define MONO(in) (OFF(CUR(in)) >= OFF(OLD(CUR(in))))
#define PROGRESS(in) (OFF(CUR(in)) > OFF(OLD(CUR(in))))
#define AVAIL_OLD(in) (g_n - OFF(OLD(CUR(in))))
#define CONSUMED(in) (OFF(CUR(in)) - OFF(OLD(CUR(in))))
#define UOLD(in) ((const vf_u8*)OLD(CUR(in)))
'''
    return p


def input_harness(intype_c, tracking, call, extra_decl='', pre_call='', base='_b0'):
    """harness building the exact-size window; `call` uses `&in`"""
    h = '''
/* the harness is ordinary code: pointer predicates of the contract language are not available here */
#undef PTRS_OK
#define PTRS_OK(in) PTRS_OK_BASE(in)
size_t w_n, w_k, w_byte, w_line, w_col; unsigned char w_b[8]; _Bool w_ret;
int main(void)
{
  __CPROVER_assume(g_n <= MAXN);
  char* buf = malloc(g_n);
  __CPROVER_assume(buf != 0);
  g_buf = buf;
  %s in;
  size_t k; __CPROVER_assume(k <= g_n);
#ifdef VF_SMALL
  __CPROVER_assume(g_n - k <= 8);   /* witness re-run: the 8 recorded bytes are the whole rest of the window */
#endif
''' % intype_c
    if tracking == 'eager':
        h += '''  in._b0.m_begin = buf; in._b0.m_end = buf + g_n; in._b0.m_current.data = buf + k;
  w_byte = in._b0.m_current.byte; w_line = in._b0.m_current.line; w_col = in._b0.m_current.column;
'''.replace('in._b0.', 'in.%s.' % base)
    else:
        h += '''  in._b0.m_begin.data = buf; in._b0.m_end = buf + g_n; in._b0.m_current = buf + k;
'''.replace('in._b0.', 'in.%s.' % base)
    h += '''  __CPROVER_assume(VALID_PRE(&in));
  w_n = g_n; w_k = k;
  for (int i = 0; i < 8; ++i) if (k + i < g_n) w_b[i] = (unsigned char)buf[k + i];
%s%s
  %s;
  return 0;
}
''' % (extra_decl, pre_call, call)
    return h


# ------------------------------------------------------------- rule contract
def rc_leaf(tracking, eol='lf_crlf', look=False, progress=False, pos=True, extra=(), assigns=True,
            can_succeed=True, can_fail=True, param='in'):
    """RC schema for a one-argument leaf `bool X::match(In& in)`"""
    c = Contract(
        R('VALID_PRE(%s)' % param),
        A('IT_FIELDS(%s)' % param) if assigns else None,
        E('VALID_POST(%s)' % param, 'RC-VALID', ('C02', 'C03')),
        E('MONO(%s)' % param, 'RC-MONO', ('C02',)),
        E('!RET ==> ITER_UNCHANGED(%s)' % param, 'RC-REWIND', ('C02',)),
    )
    if look:
        c.add(E('ITER_UNCHANGED(%s)' % param, 'RC-LOOK', ('C02',)))
    if progress:
        c.add(E('RET ==> PROGRESS(%s)' % param, 'RC-PROGRESS', ('C10', 'C09')))   # documented: the rule consumes; the C11 premise is c11_leaf(), from the real traits
    if pos and tracking == 'eager':
        c.add(E('RET ==> POS_AGREE(%s, %s)' % (param, EOLCH[eol]), 'RC-POS', ('C06',)))
    for x in extra:
        c.add(x)
    if can_succeed:
        c.add(E('!RET || vf_canary', 'canary_ok'))
    if can_fail:
        c.add(E('RET || vf_canary', 'canary_fail'))
    return c


def canaries(can_succeed=True, can_fail=True):
    out = []
    if can_succeed:
        out.append('canary_ok')
    if can_fail:
        out.append('canary_fail')
    return tuple(out)


# =========================================================================
# combinators: oracle stubs with a ghost operator automaton (DESIGN.md 4.3)
# =========================================================================
NR = 4
T_NONE = -1


def comb_prelude(tracking, base='_b0'):
    p = prelude(tracking, base)
    p += '''
/* ---- ghost protocol state ---- */
#define NR %d
#define T_NONE (-1)
int g_turn; size_t g_pos; int g_done; size_t g_iter; int g_last;   /* g_last: index of the sub-rule called last */
int g_called[NR]; int g_ok[NR]; size_t g_len[NR]; size_t g_ncalls[NR];
size_t g_cur;   /* cursor offset after the last sub-rule call (for the native stub playback of counterexamples) */
int g_ae[NR]; int g_re[NR]; size_t g_lp[NR];   /* C11: sub-rule i was called at the combinator's entry position / called again at the position of its previous call / position of its last call */
int g_c[NR];   /* C11 premise: g_c[i] != 0 means "sub-rule i consumes whenever it succeeds" (unconstrained, never assigned) */
unsigned long g_exc_obj; int g_exc_type;
size_t g_e_off, g_e_byte, g_e_line, g_e_col;          /* entry iterator of the combinator under proof */
#define VALID_STUB(in) (__CPROVER_r_ok(in,sizeof(*(in))) && PTRS_OK(in) && CNT_POS(in) && CNT_LT63(in))
#define EXC_OK (vf_exc.pending == 0)
#define BOOL01(x) ((x) == 0 || (x) == 1)
#define SATINC(x) ((x) < ((size_t)1<<60) ? (x) + 1 : (x))   /* ghost iteration counter saturates: no wrap-around */
''' % NR
    if tracking == 'eager':
        p += '''#define AT_ENTRY(in) (OFF(CUR(in))==g_e_off && BYTE(in)==g_e_byte && LINE(in)==g_e_line && COL(in)==g_e_col)
#define SET_ENTRY(in) do { g_e_off = OFF(CUR(in)); g_e_byte = BYTE(in); g_e_line = LINE(in); g_e_col = COL(in); } while(0)
'''
    else:
        p += '''#define AT_ENTRY(in) (OFF(CUR(in))==g_e_off)
#define SET_ENTRY(in) do { g_e_off = OFF(CUR(in)); } while(0)
'''
    return p


def parse_stub(fi):
    """(index, A, M) of an opaque sub-rule instantiation vf::R<i>::match<A,M,...>"""
    import re
    m = re.search(r'vf::R<(\d+)>::match<\(tao::pegtl::apply_mode\)(\d), \(tao::pegtl::rewind_mode\)(\d)', fi['pretty'])
    if not m:
        return None
    return int(m.group(1)), int(m.group(2)), int(m.group(3))   # A: 1=action 0=nothing ; M: 0=required 1=optional


def parse_stub_ac(fi):
    """(Action template, Control template) names of an opaque sub-rule instantiation"""
    import re
    m = re.search(r'vf::RM?<\d+>::match<\(tao::pegtl::apply_mode\)\d, \(tao::pegtl::rewind_mode\)\d, ([\w:]+), ([\w:]+), ', fi['pretty'])
    if not m:
        return None, None
    return m.group(1), m.group(2)


def rule_stub(spec, param='in'):
    """returns a callable(fi)->Contract implementing the oracle stub for sub-rule i under the
    operator automaton `spec`: spec[i] = dict(A=expected apply mode or None, next_ok, next_fail,
    at_entry=bool, loop=bool).  next_* are C expressions for g_turn."""
    def mk(fi):
        ps = parse_stub(fi)
        if ps is None:
            return None
        i, a, m = ps
        s = spec.get(i)
        if s is None:
            return Contract(R('0', 'stub-unexpected-subrule', ('C01',)), A('IT_FIELDS(%s)' % param))
        pre = ['VALID_STUB(%s)' % param, 'EXC_OK', 'g_turn == %d' % i, 'OFF(CUR(%s)) == g_pos' % param, 'g_done == 0']
        c = Contract()
        c.add(R(' && '.join(pre), 'stub-order-and-position', s.get('props_order', ('C01', 'C09'))))
        if s.get('A') is not None:
            c.add(R('%d == %s' % (a, s['A']), 'stub-apply-mode', ('C04', 'C01', 'C13')))
        if s.get('M') is not None:
            c.add(R('%d == %s' % (m, s['M']), 'stub-rewind-mode', ('C02',)))
        if s.get('action') is not None or s.get('control') is not None:
            act, ctl = parse_stub_ac(fi)
            if s.get('action') is not None:
                c.add(R('1' if act == s['action'] else '0', 'stub-called-with-the-action-class-%s' % s['action'].split('::')[-1], ('C13', 'C04')))
            if s.get('control') is not None:
                c.add(R('1' if ctl == s['control'] else '0', 'stub-called-with-the-control-class-%s' % s['control'].split('::')[-1], ('C13',)))
        if s.get('at_entry'):
            c.add(R('AT_ENTRY(%s)' % param, 'stub-at-entry-iterator', ('C01', 'C02')))
        for extra in s.get('requires', []):
            c.add(extra)
        c.add(A('IT_FIELDS(%s), g_turn, g_pos, g_done, g_iter, g_last, g_called[%d], g_ok[%d], g_len[%d], g_ncalls[%d], g_ae[%d], g_re[%d], g_lp[%d], g_cur, vf_exc, vf_exc_counter, g_exc_obj, g_exc_type' % (param, i, i, i, i, i, i, i)))
        c.add(E('CUR_IN_WINDOW(%s)' % param, 'stub'))    # first: when assumed it (re)builds the cursor; the clauses below then constrain it
        c.add(E('BOOL01(RET) && BOOL01(g_ok[%d]) && BOOL01(vf_exc.pending) && BOOL01(g_done)' % i, 'stub'))
        c.add(E('PTRS_OK(%s) && CNT_POS(%s) && IN_END(%s)==OLD(IN_END(%s)) && IN_BEGIN(%s)==OLD(IN_BEGIN(%s))' % ((param,) * 6), 'stub'))
        c.add(E('MONO(%s)' % param, 'stub'))
        c.add(E('CNT_LT63(%s)' % param, 'stub'))   # counters stay below 2^63: entry < 2^62, window <= 4096, every rule moves them by at most the bytes it consumes (RC-POS)
        c.add(E('g_called[%d] == 1 && g_ncalls[%d] == SATINC(OLD(g_ncalls[%d])) && g_last == %d' % (i, i, i, i), 'stub'))
        c.add(E('vf_exc.pending ==> (g_turn == T_NONE && vf_exc.obj == g_exc_obj && vf_exc.type == g_exc_type && g_exc_obj != 0'
                ' && vf_exc.obj == OLD(vf_exc_counter) + 1 && vf_exc_counter == vf_exc.obj && vf_exc.nested_obj == 0)', 'stub'))
        c.add(E('!vf_exc.pending ==> (g_exc_obj == OLD(g_exc_obj) && g_exc_type == OLD(g_exc_type) && vf_exc_counter == OLD(vf_exc_counter))', 'stub'))
        c.add(E('!vf_exc.pending ==> (RET == g_ok[%d])' % i, 'stub'))
        c.add(E('(!vf_exc.pending && g_ok[%d]) ==> (CONSUMED(%s) == g_len[%d] && g_turn == (%s) && g_pos == OFF(CUR(%s)) && g_done == 0 && g_iter == SATINC(OLD(g_iter)))'
                % (i, param, i, s['next_ok'], param), 'stub'))
        fail = '(!vf_exc.pending && !g_ok[%d]) ==> (g_turn == (%s) && g_done == %d && g_iter == OLD(g_iter)' % (i, s['next_fail'], 1 if s.get('done_on_fail') else 0)
        if s.get('pos_fail') == 'entry':
            fail += ' && g_pos == g_e_off'
        elif s.get('pos_fail') == 'same':
            fail += ' && g_pos == OLD(g_pos)'
        fail += ')'
        c.add(E(fail, 'stub'))
        if m == 0:
            c.add(E('(!vf_exc.pending && !g_ok[%d]) ==> ITER_UNCHANGED(%s)' % (i, param), 'stub'))
        c.add(E('(!vf_exc.pending && g_ok[%d] && g_c[%d]) ==> g_len[%d] > 0' % (i, i, i), 'stub'))
        c.add(E('g_cur == OFF(CUR(%s))' % param, 'stub'))
        c.add(E('g_ae[%d] == (OLD(g_ae[%d]) || OLD(g_pos) == g_e_off) && g_re[%d] == (OLD(g_re[%d]) || (OLD(g_ncalls[%d]) > 0 && OLD(g_pos) == OLD(g_lp[%d]))) && g_lp[%d] == OLD(g_pos)'
                % ((i,) * 7), 'stub'))
        return c
    return mk


def comb_requires(param='in'):
    return R('VALID_PRE(%s) && EXC_OK && g_turn == 0 && g_pos == OFF(CUR(%s)) && g_done == 0 && g_iter == 0 && AT_ENTRY(%s)'
             ' && g_called[0]==0 && g_called[1]==0 && g_called[2]==0 && g_called[3]==0'
             ' && g_ncalls[0]==0 && g_ncalls[1]==0 && g_ncalls[2]==0 && g_ncalls[3]==0'
             ' && !g_ae[0] && !g_ae[1] && !g_ae[2] && !g_ae[3] && !g_re[0] && !g_re[1] && !g_re[2] && !g_re[3] && g_exc_obj == 0 && vf_exc_counter < 1000000' % (param, param, param))


def comb_assigns(param='in'):
    return A('IT_FIELDS(%s), g_turn, g_pos, g_done, g_iter, g_last, g_called, g_ok, g_len, g_ncalls, g_ae, g_re, g_lp, g_cur, vf_exc, vf_exc_counter, g_exc_obj, g_exc_type' % param)


def comb_common(m, param='in', props_rewind=('C02',), exc_props=('C05',)):
    """clauses every combinator carries: RC-VALID, RC-MONO on every exit, RC-REWIND, exception unchanged"""
    out = [
        E('VALID_POST(%s)' % param, 'RC-VALID', ('C02', 'C03')),
        E('MONO(%s)' % param, 'RC-MONO', ('C02',)),
        E('BOOL01(RET)', 'ret-bool'),
        E('vf_exc.pending ==> (vf_exc.obj == g_exc_obj && vf_exc.type == g_exc_type)', 'EXC-UNCHANGED', exc_props),
    ]
    if m == 0:
        out.append(E('(!vf_exc.pending && !RET) ==> ITER_UNCHANGED(%s)' % param, 'RC-REWIND', props_rewind))
    return out


def comb_harness(intype_c, tracking, call, base='_b0'):
    return input_harness(intype_c, tracking, call, base=base,
                         pre_call='  SET_ENTRY(&in); g_turn = 0; g_pos = OFF(CUR(&in)); g_done = 0; g_iter = 0; g_exc_obj = 0;\n'
                                  '  for (int i = 0; i < NR; ++i) { g_called[i] = 0; g_ncalls[i] = 0; g_ae[i] = 0; g_re[i] = 0; }\n'
                                  '  vf_exc.pending = 0; __CPROVER_assume(vf_exc_counter < 1000000);\n')


def c11_premises(tr, nsub, bound=None):
    """C11 premises of one combinator against the expressions read from the real analyze_traits (tools/traits.py):
    P1 consumption is conservative; P3a every sub-rule that can be called at the entry position is one the analysis
    visits without accumulated consumption; P3b a repetition the analysis models by a back-reference makes progress
    between two calls of the same sub-rule, and where the traits have no back-reference ("bounded repetition") every
    sub-rule is called at most `bound` times (bound = documented call count, None = never twice at one position).
    tr is None when the rule has no analyze_traits at all (analyze<G>() does not compile: nothing to certify)."""
    if tr is None:
        return []
    P = ('C11',)
    out = []
    if tr['consumes'] != '0':
        out.append(E('(!vf_exc.pending && RET && (%s)) ==> CONSUMED(in) > 0' % tr['consumes'], 'ANALYZE-TRAIT-CONSUMPTION-IS-CONSERVATIVE', P))
    for i in range(nsub):
        acc = tr['left'].get(str(i), '1')
        if acc != '0':
            out.append(E('(%s) ==> !g_ae[%d]' % (acc, i), 'ANALYZE-TRAIT-LISTS-EVERY-LEFT-CALL', P))
    if nsub == 0:
        return out
    if tr['back'] is None:
        if bound is None:
            out.append(E(' && '.join('!g_re[%d]' % i for i in range(nsub)), 'ANALYZE-TRAIT-WITHOUT-BACK-REFERENCE-NO-REPETITION-IN-PLACE', P))
        else:
            out.append(E(' && '.join('g_ncalls[%d] <= %d' % (i, bound) for i in range(nsub)), 'ANALYZE-TRAIT-WITHOUT-BACK-REFERENCE-BOUNDED-REPETITION', P))
    elif tr['back'] != '0':
        out.append(E('(%s) ==> (%s)' % (tr['back'], ' && '.join('!g_re[%d]' % i for i in range(nsub))), 'ANALYZE-TRAIT-REPETITION-MAKES-PROGRESS', P))
    return out


def c11_loop_inv(tr, nsub):
    """loop-invariant conjunct carrying P3b through an unbounded repetition"""
    if tr is None or tr['back'] == '0':
        return ''
    inv = ' && '.join('!g_re[%d] && (g_ncalls[%d] > 0 ==> g_lp[%d] < g_pos)' % (i, i, i) for i in range(nsub))
    if tr['back'] is None:
        return '/*@IF C11@*/ && ' + inv + '/*@FI@*/'
    return '/*@IF C11@*/ && ((%s) ==> (%s))/*@FI@*/' % (tr['back'], inv)


_TRAITS = {}


TRAIT_INCLUDES = ('tao/pegtl/contrib/utf16.hpp', 'tao/pegtl/contrib/utf32.hpp', 'tao/pegtl/contrib/uint8.hpp', 'tao/pegtl/contrib/uint16.hpp',
                  'tao/pegtl/contrib/uint32.hpp', 'tao/pegtl/contrib/uint64.hpp', 'tao/pegtl/contrib/abnf.hpp')


def traits_of(group, rules, decls='', includes=()):
    """{key: traits record} for the rules of one group, computed once per process from the real analyze_traits"""
    import traits
    if group not in _TRAITS:
        _TRAITS[group] = traits.trait_exprs(rules, decls=decls, includes=TRAIT_INCLUDES + tuple(includes))
    return _TRAITS[group]


def c11_leaf(tr, param='in'):
    """P1 for a rule without sub-rules: where the real traits say "always consumes on success" it does"""
    if tr is None or tr['consumes'] == '0':
        return []
    assert tr['consumes'] == '1', tr
    return [E('(!vf_exc.pending && RET) ==> PROGRESS(%s)' % param, 'ANALYZE-TRAIT-CONSUMPTION-IS-CONSERVATIVE', ('C11',))]
