"""shared contract vocabulary (DESIGN.md section 4 / appendix B)"""
from vfcore import R, E, A, Contract, Clause, Job

COMMON_ASSUMPTIONS = [
    'target model x86-64 LP64, char signed (same as the baseline build)',
    'position counters byte/line/column below 2^62 on entry (machine arithmetic treated as non-wrapping)',
    'input windows of at most 4096 bytes in proofs that allocate the buffer (no length-dependent branch other than comparisons with small template constants)',
    'Source = const char* instantiation of memory_input (Source occurs in no verified function except as an opaque member)',
    'dropped by the lowering: constexpr evaluation, overload/template selection (taken as clang resolved them), const/volatile qualifiers, access control, noexcept specifications (a throw escaping a noexcept function is an obligation "repo_terminate")',
    'exceptions are lowered single-phase to a pending flag (DESIGN.md 3.4)',
]

MAXN = 4096

EOLCH = {'lf': "'\\n'", 'cr': "'\\r'", 'crlf': "'\\n'", 'lf_crlf': "'\\n'", 'cr_crlf': "'\\r'"}

# --------------------------------------------------------------------- TU text
TU_PROLOGUE = r'''
#include <tao/pegtl.hpp>
#include <tao/pegtl/contrib/utf16.hpp>
#include <tao/pegtl/contrib/utf32.hpp>
#include <tao/pegtl/contrib/uint8.hpp>
#include <tao/pegtl/contrib/uint16.hpp>
#include <tao/pegtl/contrib/uint32.hpp>
#include <tao/pegtl/contrib/uint64.hpp>
#include <tao/pegtl/contrib/abnf.hpp>
namespace vf {
using namespace tao::pegtl;
// opaque sub-rule: declared, never defined -> becomes an oracle stub
template< int I > struct R {
   using rule_t = R; using subs_t = empty_list;
   template< apply_mode A, rewind_mode M, template< typename... > class Action, template< typename... > class Control, typename ParseInput, typename... States >
   [[nodiscard]] static bool match( ParseInput& in, States&&... st );
};
using InE  = memory_input< tracking_mode::eager, eol::lf_crlf, const char* >;
using InL  = memory_input< tracking_mode::lazy,  eol::lf_crlf, const char* >;
using InE_lf = memory_input< tracking_mode::eager, eol::lf, const char* >;
using InE_cr = memory_input< tracking_mode::eager, eol::cr, const char* >;
using InE_crlf = memory_input< tracking_mode::eager, eol::crlf, const char* >;
using InE_cr_crlf = memory_input< tracking_mode::eager, eol::cr_crlf, const char* >;
using InL_lf = memory_input< tracking_mode::lazy, eol::lf, const char* >;
using InL_cr = memory_input< tracking_mode::lazy, eol::cr, const char* >;
using InL_crlf = memory_input< tracking_mode::lazy, eol::crlf, const char* >;
using InL_cr_crlf = memory_input< tracking_mode::lazy, eol::cr_crlf, const char* >;
constexpr apply_mode A0 = apply_mode::nothing;  constexpr apply_mode A1 = apply_mode::action;
constexpr rewind_mode M0 = rewind_mode::required; constexpr rewind_mode M1 = rewind_mode::optional;
}
'''

INPUT_TYPES = {
    ('eager', 'lf_crlf'): 'InE', ('lazy', 'lf_crlf'): 'InL',
    ('eager', 'lf'): 'InE_lf', ('eager', 'cr'): 'InE_cr', ('eager', 'crlf'): 'InE_crlf', ('eager', 'cr_crlf'): 'InE_cr_crlf',
    ('lazy', 'lf'): 'InL_lf', ('lazy', 'cr'): 'InL_cr', ('lazy', 'crlf'): 'InL_crlf', ('lazy', 'cr_crlf'): 'InL_cr_crlf',
}


def tu_root(name, intype, expr, extra_params=''):
    return 'namespace vf { auto root_%s(%s& in%s) { return %s; } }\n' % (name, intype, extra_params, expr)


# ------------------------------------------------------------------ prelude
def prelude(tracking):
    p = '''
#include "spec_enc.h"
size_t g_n;                 /* ghost: size of the input window object */
_Bool vf_canary;            /* always 0: clauses `X || vf_canary` must FAIL when X is reachable-false */
#define MAXN %d
#define OFF(p) __CPROVER_POINTER_OFFSET(p)
#define OLD(x) __CPROVER_old(x)
#define RET __CPROVER_return_value
#define IN_END(in) ((in)->_b0.m_end)
''' % MAXN
    if tracking == 'eager':
        p += '''
#define IN_BEGIN(in) ((in)->_b0.m_begin)
#define IT(in) ((in)->_b0.m_current)
#define CUR(in) ((in)->_b0.m_current.data)
#define CNT_OK(in) ((in)->_b0.m_current.line>=1 && (in)->_b0.m_current.column>=1 \\
   && (in)->_b0.m_current.byte < ((size_t)1<<62) && (in)->_b0.m_current.line < ((size_t)1<<62) && (in)->_b0.m_current.column < ((size_t)1<<62))
#define CNT_POS(in) ((in)->_b0.m_current.line>=1 && (in)->_b0.m_current.column>=1)
#define ITER_UNCHANGED(in) (CUR(in)==OLD(CUR(in)) && (in)->_b0.m_current.byte==OLD((in)->_b0.m_current.byte) \\
   && (in)->_b0.m_current.line==OLD((in)->_b0.m_current.line) && (in)->_b0.m_current.column==OLD((in)->_b0.m_current.column))
#define LINE(in) ((in)->_b0.m_current.line)
#define COL(in) ((in)->_b0.m_current.column)
#define BYTE(in) ((in)->_b0.m_current.byte)
/* RC-POS: counters after consuming the bytes [old cursor, new cursor), at most 8 of them */
#define POS_AGREE(in, eolch) ( BYTE(in)==OLD(BYTE(in)) + (OFF(CUR(in))-OFF(OLD(CUR(in)))) \\
   && LINE(in)==vf_pos_line(OLD(CUR(in)), OFF(CUR(in))-OFF(OLD(CUR(in))), OLD(LINE(in)), eolch) \\
   && COL(in)==vf_pos_col(OLD(CUR(in)), OFF(CUR(in))-OFF(OLD(CUR(in))), OLD(COL(in)), eolch) )
'''
    else:
        p += '''
#define IN_BEGIN(in) ((in)->_b0.m_begin.data)
#define IT(in) ((in)->_b0.m_current)
#define CUR(in) ((in)->_b0.m_current)
#define CNT_OK(in) 1
#define CNT_POS(in) 1
#define ITER_UNCHANGED(in) (CUR(in)==OLD(CUR(in)))
#define POS_AGREE(in, eolch) 1
'''
    p += '''
#define PTRS_OK(in) (__CPROVER_same_object(IN_BEGIN(in),IN_END(in)) && __CPROVER_same_object(CUR(in),IN_END(in)) \\
   && OFF(IN_BEGIN(in))==0 && OFF(IN_END(in))==g_n && OFF(CUR(in))<=g_n)
#define VALID_PRE(in) (__CPROVER_r_ok(in,sizeof(*(in))) && g_n<=MAXN && PTRS_OK(in) && CNT_OK(in) && __CPROVER_r_ok(IN_BEGIN(in),g_n))
#define VALID_POST(in) (PTRS_OK(in) && CNT_POS(in) && IN_END(in)==OLD(IN_END(in)) && IN_BEGIN(in)==OLD(IN_BEGIN(in)))
#define MONO(in) (OFF(CUR(in)) >= OFF(OLD(CUR(in))))
#define PROGRESS(in) (OFF(CUR(in)) > OFF(OLD(CUR(in))))
#define AVAIL_OLD(in) (g_n - OFF(OLD(CUR(in))))
#define CONSUMED(in) (OFF(CUR(in)) - OFF(OLD(CUR(in))))
#define UOLD(in) ((const vf_u8*)OLD(CUR(in)))
'''
    return p


def input_harness(intype_c, tracking, call, extra_decl='', pre_call=''):
    """harness building the exact-size window; `call` uses `&in`"""
    h = '''
size_t w_n, w_k, w_byte, w_line, w_col; unsigned char w_b[8]; _Bool w_ret;
int main(void)
{
  __CPROVER_assume(g_n <= MAXN);
  char* buf = malloc(g_n);
  __CPROVER_assume(buf != 0);
  %s in;
  size_t k; __CPROVER_assume(k <= g_n);
''' % intype_c
    if tracking == 'eager':
        h += '''  in._b0.m_begin = buf; in._b0.m_end = buf + g_n; in._b0.m_current.data = buf + k;
  w_byte = in._b0.m_current.byte; w_line = in._b0.m_current.line; w_col = in._b0.m_current.column;
'''
    else:
        h += '''  in._b0.m_begin.data = buf; in._b0.m_end = buf + g_n; in._b0.m_current = buf + k;
'''
    h += '''  __CPROVER_assume(VALID_PRE(&in));
  w_n = g_n; w_k = k;
  for (int i = 0; i < 8; ++i) if (k + i < g_n) w_b[i] = (unsigned char)buf[k + i];
%s%s
  %s;
  return 0;
}
''' % (extra_decl, pre_call, call)
    return h


# ------------------------------------------------------------- rule contract
def rc_leaf(tracking, eol='lf_crlf', look=False, progress=False, pos=True, extra=(), assigns=True,
            can_succeed=True, can_fail=True, param='in'):
    """RC schema for a one-argument leaf `bool X::match(In& in)`"""
    c = Contract(
        R('VALID_PRE(%s)' % param),
        A('IT(%s)' % param) if assigns else None,
        E('VALID_POST(%s)' % param, 'RC-VALID', ('C02', 'C03')),
        E('MONO(%s)' % param, 'RC-MONO', ('C02',)),
        E('!RET ==> ITER_UNCHANGED(%s)' % param, 'RC-REWIND', ('C02',)),
    )
    if look:
        c.add(E('ITER_UNCHANGED(%s)' % param, 'RC-LOOK', ('C02',)))
    if progress:
        c.add(E('RET ==> PROGRESS(%s)' % param, 'RC-PROGRESS', ('C11',)))
    if pos and tracking == 'eager':
        c.add(E('RET ==> POS_AGREE(%s, %s)' % (param, EOLCH[eol]), 'RC-POS', ('C06',)))
    for x in extra:
        c.add(x)
    if can_succeed:
        c.add(E('!RET || vf_canary', 'canary_ok'))
    if can_fail:
        c.add(E('RET || vf_canary', 'canary_fail'))
    return c


def canaries(can_succeed=True, can_fail=True):
    out = []
    if can_succeed:
        out.append('canary_ok')
    if can_fail:
        out.append('canary_fail')
    return tuple(out)
