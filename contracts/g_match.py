"""group `match`: the real match<Rule,A,M,Action,Control>() dispatcher of match.hpp (with
match_control_unwind, unwind_guard, normal<Rule>::apply/apply0, action_input) against an opaque rule,
opaque actions and opaque control hooks.  C04 (actions) and C08 (hook protocol)."""
from vfcore import R, E, A, Contract, Job, Clause
from common import *

NAME = 'match'
ASSUMPTIONS = [
    'std::optional<closure> in internal::unwind_guard is a trusted model (tools/cxx2c_models.py)',
    'whole-run statements (one action per surviving match in completion order; hooks nested like a call stack) follow from these per-attempt contracts by induction over the derivation (paper step)',
]

TU_EXTRA = r'''
#include <tao/pegtl/contrib/state_control.hpp>
namespace vf {
// opaque actions on R<0>: declared, never defined
template< typename Rule > struct AV  : nothing< Rule > {};
template<> struct AV< R<0> >  { template< typename AI > static void apply( const AI& ); };
template< typename Rule > struct AB  : nothing< Rule > {};
template<> struct AB< R<0> >  { template< typename AI > static bool apply( const AI& ); };
template< typename Rule > struct AV0 : nothing< Rule > {};
template<> struct AV0< R<0> > { static void apply0(); };
template< typename Rule > struct AB0 : nothing< Rule > {};
template<> struct AB0< R<0> > { static bool apply0(); };
// opaque control with / without unwind; apply/apply0/match are the real ones inherited from normal<>
template< typename Rule > struct ctl : normal< Rule > {
   template< typename In > static void start( const In& );
   template< typename In > static void success( const In& );
   template< typename In > static void failure( const In& );
   template< typename In > static void unwind( const In& );
};
template< typename Rule > struct ctlnu : normal< Rule > {
   template< typename In > static void start( const In& );
   template< typename In > static void success( const In& );
   template< typename In > static void failure( const In& );
};
// an opaque rule with the plain match( in ) signature of the leaf rules
struct RL { using rule_t = RL; using subs_t = empty_list; template< typename In > [[nodiscard]] static bool match( In& in ); };
// contrib/state_control.hpp: hooks forwarded to a state object, also for rules the wrapped control does not report
using HR = internal::seq< R<0> >;      // enable_control< HR > is false: normal< HR > has no hooks of its own
struct ST {
   template< typename Rule > static constexpr bool enable = std::is_same_v< Rule, HR >;
   template< typename Rule, typename In > void start( const In& );
   template< typename Rule, typename In > void success( const In& );
   template< typename Rule, typename In > void failure( const In& );
   template< typename Rule, typename In > void unwind( const In& );
};
template< typename Rule > using SCN = state_control< normal >::control< Rule >;
}
'''
ACTIONS = ['nothing', 'AV', 'AB', 'AV0', 'AB0']
CONTROLS = ['ctl', 'ctlnu', 'normal']
AM = [(a, m) for a in (0, 1) for m in (0, 1)]


def rname(act, ctl, a, m, tr):
    return 'm_%s_%s_A%dM%d_%s' % (act, ctl, a, m, 'e' if tr == 'eager' else 'l')


def all_roots():
    return [(act, ctl, a, m, tr) for act in ACTIONS for ctl in CONTROLS for a, m in AM for tr in ('eager', 'lazy')] + \
           [('nothing', 'sc', a, m, tr) for a, m in AM for tr in ('eager', 'lazy')] + \
           [('nothing', 'lc', a, m, tr) for a, m in AM for tr in ('eager', 'lazy')]


def tu_for(tracking):
    s = TU_PROLOGUE + TU_EXTRA
    for act, ctl, a, m, tr in all_roots():
        if tr != tracking:
            continue
        if ctl == 'sc':
            s += tu_root(rname(act, ctl, a, m, tr), INPUT_TYPES[(tr, 'lf_crlf')], 'tao::pegtl::match< HR, A%d, M%d, nothing, SCN >( in, st )' % (a, m), ', ST& st')
            continue
        if ctl == 'lc':
            s += tu_root(rname(act, ctl, a, m, tr), INPUT_TYPES[(tr, 'lf_crlf')], 'tao::pegtl::match< RL, A%d, M%d, nothing, ctl >( in )' % (a, m))
            continue
        s += tu_root(rname(act, ctl, a, m, tr), INPUT_TYPES[(tr, 'lf_crlf')],
                     'tao::pegtl::match< R<0>, A%d, M%d, %s, %s >( in )' % (a, m, act, ctl))
    return s


SUBGROUPS = {'match_e': lambda: tu_for('eager'), 'match_l': lambda: tu_for('lazy')}


def match_prelude(tr):
    p = comb_prelude(tr) + '''
/* ---- hook / action protocol automaton of one rule attempt (DESIGN.md appendix B.6) ---- */
enum { H_IDLE, H_STARTED, H_RULE_OK, H_RULE_FAIL, H_RULE_THREW, H_APPLIED, H_VETOED, H_APPLY_THREW,
       H_SUCCESS, H_FAILURE, H_UNWOUND };
int g_h;                              /* state of the attempt */
int g_n_start, g_n_success, g_n_failure, g_n_unwind, g_n_apply;
size_t g_ab_off, g_ae_off;            /* action input: begin / end offsets as seen by the action */
size_t g_hook_off;                    /* cursor offset seen by the closing hook */
int g_rule_threw;                     /* the rule (not its action) raised */
'''
    if tr == 'eager':
        p += '''size_t g_ab_byte, g_ab_line, g_ab_col;
#define ACT_BEGIN_IS_ENTRY (g_ab_off == g_e_off && g_ab_byte == g_e_byte && g_ab_line == g_e_line && g_ab_col == g_e_col)
'''
    else:
        p += '#define ACT_BEGIN_IS_ENTRY (g_ab_off == g_e_off)\n'
    return p


def rule_stub_h(a_expected, m_expected):
    """the rule under the dispatcher: must be called after start, exactly once"""
    base = rule_stub({0: dict(A=str(a_expected), M=str(m_expected) if m_expected is not None else None,
                              next_ok='T_NONE', next_fail='T_NONE')})

    def mk(fi):
        c = base(fi)
        c.clauses.insert(1, R('g_h == H_STARTED', 'rule-after-start', ('C08',)))
        for i, cl in enumerate(c.clauses):
            if cl.kind == 'assigns':
                c.clauses[i] = Clause('assigns', cl.text + ', g_h, g_rule_threw')
        c.add(E('g_h == (vf_exc.pending ? H_RULE_THREW : (RET ? H_RULE_OK : H_RULE_FAIL)) && g_rule_threw == (vf_exc.pending ? 1 : 0)', 'stub'))
        return c
    return mk


def hook_stub(kind):
    """Control<Rule>::start/success/failure/unwind (opaque): each is legal in exactly the states listed"""
    pre = {'start': 'g_h == H_IDLE',
           'success': 'g_h == H_RULE_OK || g_h == H_APPLIED',
           'failure': 'g_h == H_RULE_FAIL || g_h == H_VETOED',
           'unwind': 'g_h == H_RULE_THREW || g_h == H_APPLY_THREW'}[kind]
    post = {'start': 'H_STARTED', 'success': 'H_SUCCESS', 'failure': 'H_FAILURE', 'unwind': 'H_UNWOUND'}[kind]
    cnt = 'g_n_' + kind
    c = Contract(
        R('__CPROVER_r_ok(_p0, sizeof(*_p0)) && (%s)' % pre, 'hook-%s-only-when-due' % kind, ('C08',)),
        Clause('assigns', 'g_h, %s, g_hook_off' % cnt),
        E('g_h == %s && %s == SATINC(OLD(%s)) && g_hook_off == OFF(CUR(_p0))' % (post, cnt, cnt), 'stub'),
    )
    return c


def apply_stub(kind, tr):
    """Action<Rule>::apply(const action_input&) / apply0(): opaque; records the span it is given"""
    isbool = kind in ('AB', 'AB0')
    c = Contract()
    if kind in ('AV', 'AB'):
        pre = '__CPROVER_r_ok(_p0, sizeof(*_p0)) && g_h == H_RULE_OK'
        c.add(R(pre, 'action-only-after-rule-matched', ('C04', 'C08')))
        asg = 'g_h, g_n_apply, g_ab_off, g_ae_off, vf_exc, vf_exc_counter, g_exc_obj, g_exc_type'
        rec = 'g_ab_off == OFF(_p0->m_begin%s) && g_ae_off == OFF(CUR(_p0->m_input))' % ('.data' if tr == 'eager' else '')
        if tr == 'eager':
            asg += ', g_ab_byte, g_ab_line, g_ab_col'
            rec += ' && g_ab_byte == _p0->m_begin.byte && g_ab_line == _p0->m_begin.line && g_ab_col == _p0->m_begin.column'
    else:
        c.add(R('g_h == H_RULE_OK', 'action-only-after-rule-matched', ('C04', 'C08')))
        asg = 'g_h, g_n_apply, vf_exc, vf_exc_counter, g_exc_obj, g_exc_type'
        rec = '1'
    c.add(Clause('assigns', asg))
    c.add(E('g_n_apply == SATINC(OLD(g_n_apply)) && (%s)' % rec, 'stub'))
    c.add(E('BOOL01(vf_exc.pending)', 'stub'))
    c.add(E('vf_exc.pending ==> (g_h == H_APPLY_THREW && vf_exc.obj == OLD(vf_exc_counter) + 1 && vf_exc_counter == vf_exc.obj && g_exc_obj == vf_exc.obj && g_exc_type == vf_exc.type && vf_exc.nested_obj == 0)', 'stub'))
    c.add(E('!vf_exc.pending ==> (g_exc_obj == OLD(g_exc_obj) && g_exc_type == OLD(g_exc_type) && vf_exc_counter == OLD(vf_exc_counter))', 'stub'))
    if isbool:
        c.add(E('BOOL01(RET) && (!vf_exc.pending ==> g_h == (RET ? H_APPLIED : H_VETOED))', 'stub'))
    else:
        c.add(E('!vf_exc.pending ==> g_h == H_APPLIED', 'stub'))
    return c


def spec(act, ctl, a, m, tr):
    has_action = act != 'nothing' and a == 1
    isbool = act in ('AB', 'AB0')
    use_guard = has_action and act in ('AV', 'AB', 'AB0')     # has_apply || has_apply0_bool
    inner_m = 1 if use_guard else m
    hooks = ctl != 'normal'
    con = Contract(comb_requires(), R('g_h == %s && g_n_start == 0 && g_n_success == 0 && g_n_failure == 0 && g_n_unwind == 0 && g_n_apply == 0 && g_rule_threw == 0' % ('H_IDLE' if hooks else 'H_STARTED'), 'attempt-pre'),
                   Clause('assigns', 'IT_FIELDS(in), g_turn, g_pos, g_done, g_iter, g_last, g_called, g_ok, g_len, g_ncalls, g_ae, g_re, g_lp, g_cur, vf_exc, vf_exc_counter, g_exc_obj, g_exc_type, '
                                     'g_h, g_rule_threw, g_n_start, g_n_success, g_n_failure, g_n_unwind, g_n_apply, g_ab_off, g_ae_off, g_hook_off' + (', g_ab_byte, g_ab_line, g_ab_col' if tr == 'eager' else '')))
    for c in comb_common(m, props_rewind=('C02', 'C04')):
        con.add(c)
    P4, P8 = ('C04',), ('C08',)
    con.add(E('g_called[0] && g_ncalls[0] == 1', 'MATCH-RULE-ONCE', ('C04', 'C08')))
    # ---- C04
    if has_action:
        con.add(E('g_n_apply == ((g_called[0] && g_ok[0] && !g_rule_threw) ? 1 : 0)', 'ACTION-ONCE-IFF-RULE-MATCHED', P4))
        if act in ('AV', 'AB'):
            con.add(E('g_n_apply == 1 ==> (ACT_BEGIN_IS_ENTRY && g_ae_off == g_e_off + g_len[0])', 'ACTION-SPAN-IS-EXACTLY-THE-MATCH', P4))
        if isbool:
            con.add(E('!vf_exc.pending ==> RET == (g_ok[0] && g_h == H_SUCCESS)' if hooks else '!vf_exc.pending ==> RET == (g_ok[0] && g_h == H_APPLIED)', 'RESULT-IS-RULE-AND-ACTION', P4))
            con.add(E('(!vf_exc.pending && g_ok[0] && !RET) ==> ITER_UNCHANGED(in)', 'VETO-RESTORES-CURSOR', ('C04', 'C02')))
        else:
            con.add(E('!vf_exc.pending ==> RET == g_ok[0]', 'VOID-ACTION-DOES-NOT-CHANGE-RESULT', ('C04', 'C01')))
        con.add(E('(!vf_exc.pending && RET) ==> CONSUMED(in) == g_len[0]', 'DISPATCHER-DOES-NOT-MOVE-CURSOR', ('C04', 'C01')))
    else:
        con.add(E('g_n_apply == 0', 'NO-ACTION-WHEN-DISABLED-OR-NOTHING', P4))
        con.add(E('!vf_exc.pending ==> (RET == g_ok[0] && (RET ==> CONSUMED(in) == g_len[0]))', 'DISPATCHER-TRANSPARENT', ('C04', 'C01')))
    # ---- C08
    if hooks:
        con.add(E('g_n_start == 1', 'HOOK-START-EXACTLY-ONCE', P8))
        if ctl in ('ctl', 'sc', 'lc'):
            con.add(E('g_n_success + g_n_failure + g_n_unwind == 1', 'HOOK-EXACTLY-ONE-CLOSING', P8))
            con.add(E('(g_h == H_UNWOUND) == (vf_exc.pending != 0)', 'HOOK-UNWIND-IFF-EXCEPTION-PASSES', P8))
        else:
            con.add(E('!vf_exc.pending ==> g_n_success + g_n_failure == 1', 'HOOK-EXACTLY-ONE-CLOSING', P8))
            con.add(E('vf_exc.pending ==> g_n_success + g_n_failure == 0', 'HOOK-NONE-AFTER-EXCEPTION-WITHOUT-UNWIND', P8))
        con.add(E('!vf_exc.pending ==> (RET == (g_h == H_SUCCESS) && !RET == (g_h == H_FAILURE))', 'HOOK-SUCCESS-IFF-MATCHED-AND-ACCEPTED', P8))
        con.add(E('(g_h == H_SUCCESS) ==> g_hook_off == g_e_off + g_len[0]', 'HOOK-SUCCESS-SEES-CURSOR-AFTER-MATCH', ('C08', 'C06')))
    con.add(E('vf_canary', 'canary_exit'))
    return con, inner_m, has_action


def jobs(tier):
    out = []
    for act, ctl, a, m, tr in all_roots():
        if tr == 'lazy' and tier != 'thorough' and not (a == 1 and m == 0 and ctl == 'ctl'):
            continue
        if ctl == 'normal' and tier != 'thorough' and m == 1:
            continue
        con, inner_m, has_action = spec(act, ctl, a, m, tr)
        stubs = [(r'^bool vf::R<\d+>::match<', rule_stub_h(a, inner_m))]
        if ctl == 'lc':
            # the leaf-signature rule: same oracle, no modes in its signature (a leaf never consumes when it fails)
            def leaf_stub(fi, a=a):
                fi2 = dict(fi)
                fi2['pretty'] = 'bool vf::R<0>::match<(tao::pegtl::apply_mode)%d, (tao::pegtl::rewind_mode)0, leaf>' % a
                return rule_stub_h(a, 0)(fi2)
            stubs = [(r'^bool vf::RL::match<', leaf_stub)]
        for k in ('start', 'success', 'failure', 'unwind'):
            if ctl == 'sc':
                # unwind is optional: when the control loses its unwind hook the protocol clauses (exactly one closing hook) report it
                stubs.append((r'vf::ST::%s<' % k, hook_stub(k)) + (('opt',) if k == 'unwind' else ()))
                continue
            if ctl == 'lc':
                stubs.append((r'vf::ctl<vf::RL>::%s<' % k, hook_stub(k)) + (('opt',) if k == 'unwind' else ()))
                continue
            if ctl == 'normal' or (k == 'unwind' and ctl != 'ctl'):
                continue
            stubs.append((r'vf::ctl(nu)?<vf::R<0> >::%s<' % k, hook_stub(k)))
        if has_action:
            stubs.append((r'^((void|bool) )?vf::%s<vf::R<0> >::apply0?(<|\()' % act, apply_stub(act, tr)))
        elif act != 'nothing':
            # actions disabled: the action must not even be reachable; should a changed dispatcher call it, the call is a failed precondition
            stubs.append((r'^((void|bool) )?vf::%s<vf::R<0> >::apply0?(<|\()' % act,
                          Contract(R('0', 'action-called-although-actions-are-disabled', ('C04',)), Clause('assigns', '')), 'opt'))
        j = Job(rname(act, ctl, a, m, tr), 'match_e' if tr == 'eager' else 'match_l', rname(act, ctl, a, m, tr), con, ('C04', 'C08', 'C02'),
                stubs=stubs, prelude=match_prelude(tr),
                harness=comb_harness('vf_' + INPUT_TYPES[(tr, 'lf_crlf')], tr, 'w_ret = $ENTRY(&in)' if ctl != 'sc' else 'struct $REC{vf::ST} sto; w_ret = $ENTRY(&in, &sto)').replace(
                    'vf_exc.pending = 0;', 'vf_exc.pending = 0; vf_exc.obj = 0; g_h = %s; g_n_start = g_n_success = g_n_failure = g_n_unwind = g_n_apply = 0; g_rule_threw = 0;' % ('H_IDLE' if ctl != 'normal' else 'H_STARTED')),
                expect_fail_canary=('canary_exit',),
                desc='match<R, %s, %s, %s, %s>() on memory_input<%s>' % ('action' if a else 'nothing', 'optional' if m else 'required', act, ctl, tr))
        out.append(j)
    return out
