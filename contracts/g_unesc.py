"""group `unesc`: contrib/unescape.hpp (C17): utf8_append_utf32 (all 2^32 values), unhex_char, unhex_string,
unescape_c::apply_two, unescape_j::apply (surrogate pairing)."""
from vfcore import R, E, A, Contract, Job, Clause
from common import *

NAME = 'unesc'
ASSUMPTIONS = [
    'std::string::operator+=(char) and std::string::append(const char*, size_t) are modelled by assumed contracts "appends exactly these bytes to the ghost output buffer"',
    'unhex_string is proved for digit strings of length <= 8 (complete unwinding): the lengths used by the unescape actions (2, 4, 8)',
    'unescape_j::apply is proved for one, two or three consecutive \\\\uXXXX escapes (action input sizes 5, 11 and 17), complete unwinding',
]

TU_EXTRA = r'''
#include <tao/pegtl/contrib/unescape.hpp>
namespace vf {
using AI = internal::action_input< InE >;
auto root_append(std::string& s, unsigned cp) { return unescape::utf8_append_utf32( s, cp ); }
auto root_unhex_char_u(char c) { return unescape::unhex_char< unsigned >( c ); }
auto root_unhex_char_c(char c) { return unescape::unhex_char< char >( c ); }
auto root_unhex_string_u(const char* b, const char* e) { return unescape::unhex_string< unsigned >( b, e ); }
auto root_unhex_string_c(const char* b, const char* e) { return unescape::unhex_string< char >( b, e ); }
auto root_unescape_j(const AI& in, std::string& s) { return unescape::unescape_j::apply( in, s ); }
using UC = unescape::unescape_c< one< 'n', 't', '\\', '0' >, '\n', '\t', '\\', '\0' >;
auto root_unescape_c(const AI& in) { return UC::apply_one( in, static_cast< const one< 'n', 't', '\\', '0' >* >( nullptr ) ); }
}
'''


def tu():
    return TU_PROLOGUE + TU_EXTRA


PRE = '''
#include "spec_enc.h"
_Bool vf_canary;
#define OFF(p) __CPROVER_POINTER_OFFSET(p)
#define OLD(x) __CPROVER_old(x)
#define RET __CPROVER_return_value
/* ghost output buffer: what has been appended to the std::string */
unsigned char g_out[16]; size_t g_out_n;
/* ghost log of appended code points (unescape_j) */
unsigned g_cp[4]; size_t g_ncp; int g_cp_ok[4];
#define ISX(c) (((c) >= '0' && (c) <= '9') || ((c) >= 'a' && (c) <= 'f') || ((c) >= 'A' && (c) <= 'F'))
static inline unsigned vf_hexval(char c) { return (c >= '0' && c <= '9') ? (unsigned)(c - '0') : (c >= 'a' && c <= 'f') ? (unsigned)(c - 'a' + 10) : (unsigned)(c - 'A' + 10); }
static inline unsigned long vf_hex(const char* p, size_t n) { unsigned long v = 0; for (size_t i = 0; i < 8; ++i) if (i < n) v = v * 16 + vf_hexval(p[i]); return v; }
/* documented behaviour of unescape_j on k = (size + 1) / 6 <= 3 consecutive \\uXXXX escapes: left to right, a high surrogate directly followed by
   a low one is combined, every other value is encoded individually, the first non-scalar value (lone surrogate) ends the run with an error.
   what: 0 = number of code points handed to utf8_append_utf32, 1 = all accepted, 2 + j = the j-th code point */
static inline unsigned long vf_uj(const char* sp, size_t size, int what)
{
  size_t k = (size + 1) / 6; unsigned v[3] = { 0, 0, 0 }; unsigned cp[3] = { 0, 0, 0 };
  for (int j = 0; j < 3; ++j) if ((size_t)j < k) v[j] = (unsigned)vf_hex(sp + 1 + 6 * j, 4);
  size_t n = 0, i = 0; _Bool ok = 1;
  for (int it = 0; it < 3; ++it) if (ok && i < k) {
    unsigned c = v[i];
    if (c >= 0xD800u && c <= 0xDBFFu && i + 1 < k && v[i + 1] >= 0xDC00u && v[i + 1] <= 0xDFFFu) { cp[n++] = 0x10000u + (((c & 0x3FFu) << 10) | (v[i + 1] & 0x3FFu)); i += 2; }
    else { cp[n++] = c; if (c >= 0xD800u && c <= 0xDFFFu) ok = 0; i += 1; }
  }
  return what == 0 ? n : what == 1 ? ok : cp[what - 2];
}
'''

PLUS_EQ = Contract(R('g_out_n < 12', 'string-model'), Clause('assigns', 'g_out_n, g_out[g_out_n]'),
                   E('g_out_n == OLD(g_out_n) + 1 && g_out[OLD(g_out_n)] == (unsigned char)_p1', 'stub'))


def plus_eq(fi):
    n = [p['name'] for p in fi.get('params', [])]
    return Contract(R('g_out_n < 12', 'string-model'), Clause('assigns', 'g_out_n, __CPROVER_object_whole(g_out)'),
                    E('g_out_n == OLD(g_out_n) + 1 && g_out[OLD(g_out_n)] == (unsigned char)%s && __CPROVER_return_value == self' % n[-1], 'stub'),
                    E('OLD(g_out_n) < 1 || g_out[0] == OLD(g_out[0])', 'stub'))


def append_n(fi):
    n = [p['name'] for p in fi.get('params', [])]
    p_, c_ = n[-2], n[-1]
    return Contract(R('g_out_n == 0 && %s <= 4 && __CPROVER_r_ok(%s, %s)' % (c_, p_, c_), 'string-model'), Clause('assigns', 'g_out_n, __CPROVER_object_whole(g_out)'),
                    E('g_out_n == OLD(g_out_n) + %s && __CPROVER_return_value == self' % c_, 'stub'),
                    E('(%s > 0 ==> g_out[0] == (unsigned char)%s[0]) && (%s > 1 ==> g_out[1] == (unsigned char)%s[1]) && (%s > 2 ==> g_out[2] == (unsigned char)%s[2]) && (%s > 3 ==> g_out[3] == (unsigned char)%s[3])'
                      % (c_, p_, c_, p_, c_, p_, c_, p_), 'stub'))


STRING_STUBS = [(r'basic_string<.*>::operator\+=\(char\)', plus_eq), (r'basic_string<.*>::append\(char const\*, unsigned long\)', append_n)]


def jobs(tier):
    out = []
    P = ('C17',)
    # 1. utf8_append_utf32: loop-free, all 2^32 code points
    con = Contract(R('__CPROVER_r_ok(string, 1) && g_out_n == 0', 'pre'), Clause('assigns', 'g_out_n, __CPROVER_object_whole(g_out), *string'),
                   E('RET == vf_is_scalar(utf32)', 'APPEND-ACCEPTS-EXACTLY-SCALAR-VALUES', P),
                   E('RET ==> g_out_n == utf8_enc_len(utf32)', 'APPEND-ENCODING-LENGTH', P),
                   E('RET ==> ((g_out_n > 0 ==> g_out[0] == utf8_enc_byte(utf32, 0)) && (g_out_n > 1 ==> g_out[1] == utf8_enc_byte(utf32, 1))'
                     ' && (g_out_n > 2 ==> g_out[2] == utf8_enc_byte(utf32, 2)) && (g_out_n > 3 ==> g_out[3] == utf8_enc_byte(utf32, 3)))', 'APPEND-IS-THE-UNIQUE-WELL-FORMED-ENCODING', P),
                   E('RET ==> (utf8_spec_len(g_out, g_out_n) == g_out_n && utf8_spec_cp(g_out, g_out_n) == utf32)', 'APPEND-ROUND-TRIPS-THROUGH-THE-DECODER-SPEC', ('C17', 'C10')),
                   E('!RET ==> g_out_n == 0', 'APPEND-NOTHING-ON-REJECTION', P),
                   E('!RET || vf_canary', 'canary_ok'), E('RET || vf_canary', 'canary_fail'))
    out.append(Job('append_utf32', NAME, 'append', con, P, prelude=PRE, stubs=STRING_STUBS,
                   harness='int main(void) { struct $REC{std::basic_string<char>} s; unsigned cp; g_out_n = 0; $ENTRY(&s, cp); return 0; }',
                   expect_fail_canary=('canary_ok', 'canary_fail'), desc='utf8_append_utf32: all 2^32 values, loop-free'))
    # 2. unhex_char
    for k, ct in (('u', 'unsigned'), ('c', 'char')):
        con = Contract(R('ISX(c)', 'documented-precondition-xdigit'), A(''),
                       E('RET == (%s)vf_hexval(c)' % ct, 'UNHEX-CHAR-VALUE', P), E('vf_canary', 'canary_exit'))
        out.append(Job('unhex_char_%s' % k, NAME, 'unhex_char_%s' % k, con, P, prelude=PRE,
                       harness='int main(void) { char c; $ENTRY(c); return 0; }', expect_fail_canary=('canary_exit',),
                       desc='unhex_char<%s>: all 22 permitted characters; std::terminate unreachable under the documented precondition' % ct))
    # 3. unhex_string, length <= 8
    for k, ct, mxl in (('u', 'unsigned', 8), ('c', 'char', 2)):
        con = Contract(R('__CPROVER_same_object(begin, end) && OFF(begin) <= OFF(end) && OFF(end) - OFF(begin) <= %d' % mxl + ' && __CPROVER_r_ok(begin, OFF(end) - OFF(begin))'
                         ' && (OFF(end)-OFF(begin) > 0 ==> ISX(begin[0])) && (OFF(end)-OFF(begin) > 1 ==> ISX(begin[1])) && (OFF(end)-OFF(begin) > 2 ==> ISX(begin[2]))'
                         ' && (OFF(end)-OFF(begin) > 3 ==> ISX(begin[3])) && (OFF(end)-OFF(begin) > 4 ==> ISX(begin[4])) && (OFF(end)-OFF(begin) > 5 ==> ISX(begin[5]))'
                         ' && (OFF(end)-OFF(begin) > 6 ==> ISX(begin[6])) && (OFF(end)-OFF(begin) > 7 ==> ISX(begin[7]))', 'pre'), A(''),
                       E('RET == (%s)vf_hex(OLD(begin), OFF(end) - OFF(OLD(begin)))' % ct, 'UNHEX-STRING-VALUE', P), E('vf_canary', 'canary_exit'))
        out.append(Job('unhex_string_%s' % k, NAME, 'unhex_string_%s' % k, con, P, prelude=PRE, unwind=10,
                       harness='int main(void) { size_t n; __CPROVER_assume(n <= %d); char* b = malloc(n);' % mxl + ' __CPROVER_assume(b != 0); $ENTRY(b, b + n); return 0; }',
                       expect_fail_canary=('canary_exit',), desc='unhex_string<%s>: length <= %d, complete unwinding' % (ct, mxl)))
    # 5. unescape_c::apply_two (4 escapes), complete unwinding
    con = Contract(R('__CPROVER_r_ok(in, sizeof(*in)) && __CPROVER_r_ok(in->m_begin.data, 1)'
                     " && (in->m_begin.data[0] == 'n' || in->m_begin.data[0] == 't' || in->m_begin.data[0] == '\\\\' || in->m_begin.data[0] == '0')", 'documented-precondition-escaped-char'), A(''),
                   E("RET == (OLD(in->m_begin.data[0]) == 'n' ? '\\n' : OLD(in->m_begin.data[0]) == 't' ? '\\t' : OLD(in->m_begin.data[0]) == '\\\\' ? '\\\\' : (char)0)", 'UNESCAPE-C-MAPS-EACH-CHARACTER-TO-ITS-VALUE', P),
                   E('vf_canary', 'canary_exit'))
    out.append(Job('unescape_c', NAME, 'unescape_c', con, P, prelude=PRE, unwind=6,
                   harness='int main(void) { char* b = malloc(1); __CPROVER_assume(b != 0); vf_AI ai; ai.m_begin.data = b; $ENTRY(&ai, (void*)0); return 0; }',
                   expect_fail_canary=('canary_exit',), desc='unescape_c<one<n,t,\\\\,0>,...>::apply_one / apply_two'))
    # 4. unescape_j::apply: one or two consecutive escapes
    def append_log(fi):
        return Contract(R('g_ncp < 4', 'log'), Clause('assigns', 'g_ncp, __CPROVER_object_whole(g_cp), *string'),
                        E('g_ncp == OLD(g_ncp) + 1 && g_cp[OLD(g_ncp)] == utf32 && RET == vf_is_scalar(utf32)', 'stub'),
                        E('(OLD(g_ncp) >= 1 ==> g_cp[0] == OLD(g_cp[0])) && (OLD(g_ncp) >= 2 ==> g_cp[1] == OLD(g_cp[1])) && (OLD(g_ncp) >= 3 ==> g_cp[2] == OLD(g_cp[2]))', 'stub'))

    def unhex_stub(fi):
        return Contract(R('__CPROVER_same_object(begin, end) && OFF(end) == OFF(begin) + 4 && __CPROVER_r_ok(begin, 4) && ISX(begin[0]) && ISX(begin[1]) && ISX(begin[2]) && ISX(begin[3])',
                          'four-hex-digits-inside-the-action-input', ('C17', 'C03')), A(''),
                        E('RET == (unsigned)vf_hex(begin, 4)', 'stub'))
    SP = 'g_span'
    C_ = '((unsigned)vf_hex(g_span + 1, 4))'
    D_ = '((unsigned)vf_hex(g_span + 7, 4))'
    HIGH = '(%s >= 0xD800u && %s <= 0xDBFFu)' % (C_, C_)
    LOW = '(%s >= 0xDC00u && %s <= 0xDFFFu)' % (D_, D_)
    con = Contract(R('__CPROVER_r_ok(in, sizeof(*in)) && __CPROVER_r_ok(in->m_input, sizeof(*in->m_input)) && g_span == in->m_begin.data && __CPROVER_same_object(g_span, in->m_input->_b0.m_current.data)'
                     ' && (g_size == 5 || g_size == 11 || g_size == 17) && OFF(in->m_input->_b0.m_current.data) == OFF(g_span) + g_size && __CPROVER_r_ok(g_span, g_size)'
                     ' && ISX(g_span[1]) && ISX(g_span[2]) && ISX(g_span[3]) && ISX(g_span[4])'
                     ' && (g_size >= 11 ==> (ISX(g_span[7]) && ISX(g_span[8]) && ISX(g_span[9]) && ISX(g_span[10])))'
                     ' && (g_size == 17 ==> (ISX(g_span[13]) && ISX(g_span[14]) && ISX(g_span[15]) && ISX(g_span[16])))'
                     ' && g_ncp == 0 && vf_exc.pending == 0 && vf_exc_counter < 1000', 'documented-precondition-size-plus-1-multiple-of-6'),
                   Clause('assigns', 'g_ncp, __CPROVER_object_whole(g_cp), *s, vf_exc, vf_exc_counter'),
                   E('g_ncp == vf_uj(g_span, g_size, 0)', 'UNESCAPE-J-PAIRS-COMBINED-OTHERS-INDIVIDUALLY-IN-ORDER', P),
                   E('(g_ncp >= 1 ==> g_cp[0] == (unsigned)vf_uj(g_span, g_size, 2)) && (g_ncp >= 2 ==> g_cp[1] == (unsigned)vf_uj(g_span, g_size, 3)) && (g_ncp >= 3 ==> g_cp[2] == (unsigned)vf_uj(g_span, g_size, 4))',
                     'UNESCAPE-J-CODE-POINTS-EXACT', P),
                   E('vf_uj(g_span, g_size, 1) ? (RET && !vf_exc.pending) : vf_exc.pending != 0', 'UNESCAPE-J-LONE-SURROGATE-REJECTED-EVERYTHING-ELSE-ACCEPTED', P),
                   E('vf_canary', 'canary_exit'))
    out.append(Job('unescape_j', NAME, 'unescape_j', con, ('C17', 'C03'), prelude=PRE + 'const char* g_span; size_t g_size;\n',
                   stubs=[(r'^tao::pegtl::unescape::utf8_append_utf32\(', append_log), (r'unescape::unhex_string<unsigned int>\(', unhex_stub)], unwind=10, flags=['--object-bits', '11'], solver='minisat',
                   harness='int main(void) { size_t n; __CPROVER_assume(n == 5 || n == 11 || n == 17); char* b = malloc(n + 8); /* 8 bytes of slack: unescape_j forms b + 6 and b + 10 before comparing with end() */ __CPROVER_assume(b != 0); vf_InE inp; inp._b0.m_begin = b; inp._b0.m_end = b + n; inp._b0.m_current.data = b + n;'
                           ' vf_AI ai; ai.m_begin.data = b; ai.m_input = &inp; struct $REC{std::basic_string<char>} s; g_span = b; g_size = n; g_ncp = 0; vf_exc.pending = 0; __CPROVER_assume(vf_exc_counter < 1000); $ENTRY(&ai, &s); return 0; }',
                   expect_fail_canary=('canary_exit',), desc='unescape_j::apply on one, two or three \\\\uXXXX escapes (complete unwinding)'))
    return out
