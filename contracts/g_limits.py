"""group `limits`: contrib/limit_bytes.hpp, check_bytes.hpp, limit_depth.hpp, input_with_depth.hpp (C18)."""
from vfcore import R, E, A, Contract, Job, Clause
from common import *
import g_exc

NAME = 'limits'
ASSUMPTIONS = ['the guarded rule is an oracle stub whose precondition states the window it must see: end == min(real end, start of the match + Maximum)']

MAXB = 6
MAXD = 3
TU_EXTRA = r'''
#include <tao/pegtl/contrib/limit_bytes.hpp>
#include <tao/pegtl/contrib/check_bytes.hpp>
#include <tao/pegtl/contrib/limit_depth.hpp>
#include <tao/pegtl/contrib/input_with_depth.hpp>
namespace vf {
using DInE = input_with_depth< InE >;
using DInL = input_with_depth< InL >;
}
'''
AM = [(a, m) for a in (0, 1) for m in (0, 1)]
OPS = {
    'limitbytes': ('limit_bytes< %d >::match< R<0>, A%%d, M%%d, nothing, normal >( in )' % MAXB, False),
    'checkbytes': ('check_bytes< %d >::match< R<0>, A%%d, M%%d, nothing, normal >( in )' % MAXB, False),
    'limitdepth': ('limit_depth< %d >::match< R<0>, A%%d, M%%d, nothing, normal >( in )' % MAXD, True),
}


def rname(op, a, m, tr):
    return '%s_A%dM%d_%s' % (op, a, m, 'e' if tr == 'eager' else 'l')


def tu_for(tracking):
    s = TU_PROLOGUE + TU_EXTRA
    for op, (expr, depth) in OPS.items():
        for a, m in AM:
            it = ('DInE' if tracking == 'eager' else 'DInL') if depth else INPUT_TYPES[(tracking, 'lf_crlf')]
            s += tu_root(rname(op, a, m, tracking), it, expr % (a, m))
    return s


SUBGROUPS = {'limits_e': lambda: tu_for('eager'), 'limits_l': lambda: tu_for('lazy')}

PRE = '''
size_t g_lim;       /* ghost: where the guarded rule must see the end of the input */
size_t g_d0;        /* ghost: depth counter at entry */
#define MAXB %d
#define MAXD %d
#define PTRS_OK_LIM(in) (__CPROVER_same_object(IN_BEGIN(in),IN_END(in)) && __CPROVER_same_object(CUR(in),IN_END(in)) \\
   && OFF(IN_BEGIN(in))==0 && OFF(IN_END(in))==g_lim && OFF(CUR(in))<=g_lim)
#define VALID_STUB_LIM(in) (__CPROVER_r_ok(in,sizeof(*(in))) && PTRS_OK_LIM(in) && CNT_POS(in) && CNT_LT63(in))
''' % (MAXB, MAXD)


def limited(con):
    """the oracle stub, but with the window end the byte guard must have installed"""
    for c in con.clauses:
        c.text = c.text.replace('VALID_STUB(in)', 'VALID_STUB_LIM(in)').replace('PTRS_OK(in)', 'PTRS_OK_LIM(in)')
        if c.tag == 'stub-order-and-position':
            c.tag = 'guarded-rule-sees-exactly-start-plus-maximum-bytes'
            c.props = ('C18', 'C03')
    return con


def jobs(tier):
    out = []
    P = ('C18',)
    for tr in ('eager', 'lazy'):
        for op, (expr, depth) in OPS.items():
            for a, m in AM:
                if tr == 'lazy' and tier != 'thorough' and not (a == 1 and m == 0):
                    continue
                base = '_b0._b0' if depth else '_b0'
                it = ('DInE' if tr == 'eager' else 'DInL') if depth else INPUT_TYPES[(tr, 'lf_crlf')]
                stub = rule_stub({0: dict(A=str(a), M=str(m), next_ok='T_NONE', next_fail='T_NONE')})
                con = Contract(comb_requires())
                asg = 'IT_FIELDS(in), g_turn, g_pos, g_done, g_iter, g_last, g_called, g_ok, g_len, g_ncalls, g_ae, g_re, g_lp, g_cur, vf_exc, vf_exc_counter, g_exc_obj, g_exc_type'
                own = ('(vf_exc.pending && vf_exc.type == %s && vf_exc.obj != g_exc_obj)' % g_exc.PE)
                if op == 'limitbytes':
                    con.add(R('g_lim == ((g_n - OFF(CUR(in)) < MAXB) ? g_n : OFF(CUR(in)) + MAXB)', 'lim-ghost'))
                    asg += ', IN_END(in)'
                    base_stub = stub
                    stub = lambda fi, bs=base_stub: limited(bs(fi))
                    post = [E('IN_END(in) == OLD(IN_END(in))', 'BYTES-END-RESTORED-IN-EVERY-OUTCOME', P),
                            E('!vf_exc.pending ==> (g_called[0] && RET == g_ok[0] && (RET ==> CONSUMED(in) == g_len[0]))', 'BYTES-TRANSPARENT-WITHIN-LIMIT', P),
                            E('(vf_exc.pending && !STUB_RAISED) ==> (g_ok[0] && OFF(CUR(in)) == g_lim && g_lim < g_n && vf_exc.type == %s)' % g_exc.PE, 'BYTES-RAISES-ONLY-AT-THE-LIMIT', P),
                            E('g_len[0] <= MAXB || !g_ok[0] || STUB_RAISED', 'BYTES-NEVER-MORE-THAN-MAXIMUM-CONSUMED', P)]
                elif op == 'checkbytes':
                    post = [E('(!STUB_RAISED && g_called[0] && g_ok[0] && g_len[0] > MAXB) ==> %s' % own, 'CHECKBYTES-RAISES-WHEN-EXCEEDED', P),
                            E('(vf_exc.pending && !STUB_RAISED) ==> (g_ok[0] && g_len[0] > MAXB)', 'CHECKBYTES-RAISES-ONLY-WHEN-EXCEEDED', P),
                            E('!vf_exc.pending ==> (g_called[0] && RET == g_ok[0] && (RET ==> CONSUMED(in) == g_len[0]))', 'CHECKBYTES-TRANSPARENT', P)]
                else:
                    con.add(R('g_d0 == in->m_depth && in->m_depth < 1000000', 'depth-ghost'))
                    asg += ', in->m_depth'
                    base_stub = stub

                    def stub(fi, bs=base_stub):
                        c = bs(fi)
                        c.clauses.insert(1, R('in->m_depth == g_d0 + 1 && g_d0 + 1 <= MAXD', 'guarded-rule-runs-at-most-Maximum-levels-deep', ('C18',)))
                        return c
                    post = [E('in->m_depth == OLD(in->m_depth)', 'DEPTH-COUNTER-RESTORED-IN-EVERY-OUTCOME', P),
                            E('(g_d0 + 1 > MAXD) ==> (%s && !g_called[0] && vf_exc.site == $SITE{normal<tao::pegtl::limit_depth<%dul> >::raise<})' % (own, MAXD), 'DEPTH-RAISES-WHEN-TOO-DEEP', P),
                            E('(g_d0 + 1 <= MAXD && !vf_exc.pending) ==> (g_called[0] && RET == g_ok[0] && (RET ==> CONSUMED(in) == g_len[0]))', 'DEPTH-TRANSPARENT-WITHIN-LIMIT', P),
                            E('(g_d0 + 1 <= MAXD && vf_exc.pending) ==> STUB_RAISED', 'DEPTH-NO-OWN-EXCEPTION-WITHIN-LIMIT', P)]
                con.add(Clause('assigns', asg))
                for c in comb_common(m):
                    if c.tag == 'EXC-UNCHANGED':      # these rules raise exceptions of their own
                        c = E('(STUB_RAISED && vf_exc.pending) ==> (vf_exc.obj == g_exc_obj && vf_exc.type == g_exc_type)', 'EXC-UNCHANGED', ('C05',))
                    con.add(c)
                for c in post:
                    con.add(c)
                con.add(E('vf_canary', 'canary_exit'))
                h = comb_harness('vf_' + it, tr, 'w_ret = $ENTRY(&in)', base=base).replace(
                    'vf_exc.pending = 0;', 'vf_exc.pending = 0; vf_exc.obj = 0; g_lim = ((g_n - k < MAXB) ? g_n : k + MAXB);' + (' g_d0 = in.m_depth;' if depth else ''))
                j = Job(rname(op, a, m, tr), 'limits_e' if tr == 'eager' else 'limits_l', rname(op, a, m, tr), con, ('C18', 'C02', 'C03'),
                        stubs=[(r'^bool vf::R<\d+>::match<', stub)], prelude=g_exc.exc_prelude(tr).replace('#define INB(in) ((in)->_b0)', '#define INB(in) ((in)->%s)' % base) + PRE,
                        harness=h, expect_fail_canary=('canary_exit',), desc=(expr % (a, m)) + ' on %s' % it)
                out.append(j)
    return out
