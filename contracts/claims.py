"""what MANIFEST.json claims, per property (kept next to the contracts so that it stays current)"""
NOTES = ('Every check lowers the instantiated PEGTL templates from /repo/include (current working tree) to C on every run '
         '(cached by content hash), weaves the contracts of contracts/g_*.py and discharges them with CBMC code contracts. '
         'exit 0 = all obligations of the property discharged; exit 1 = VIOLATION (failed named obligation, replayed natively under ASan/UBSan when the trace gives an input); '
         'exit 2 = undecided (tool limit, weave mismatch, timeout) and never a violation.')

CLAIMS = {
    'C10': {
        'text': 'For every shipped single-unit rule family (ASCII and ABNF classes, one/not_one/range/not_range/ranges over peek_char, UTF-8, UTF-16 BE/LE, UTF-32 BE/LE, uint8/16/32/64 BE/LE incl. masked variants) the real match() body, lowered mechanically, is proved for ALL window contents, lengths 0..4096 and cursor offsets to succeed exactly when the next bytes form a well-formed unit (specification written from the Unicode tables / byte arithmetic, not from the code) whose value lies in the documented set, and then to consume exactly the unit length. Loop-free bodies, full-domain symbolic bytes: complete proofs.',
        'note': 'Documented byte sets transcribed by hand from doc/Rule-Reference.md / RFC 5234; template constants are those of the listed instantiations (test_one with symbolic constants is a separate job family); istring folding is in group `str`.',
        'design': 'DESIGN.md section 5 C10',
    },
    'C06': {
        'text': 'internal::bump is proved, for any count, to be the fold of the one-byte position step (ghost fold with its own index, loop contract), and for count<=8 by complete unwinding against the closed-form spec; bump_in_this_line/bump_to_next_line against closed forms; every byte-oriented and UTF-8 single-unit rule proves RC-POS: after success the eager counters equal the spec fold over exactly the consumed bytes (so the bump_in_this_line fast path chosen by bump_help is sound for that rule).',
        'note': 'UTF-16/32 and multi-byte binary rules excluded as the property says. Lazy tracking computes positions with the same bump from the beginning (proved fold). Multi-byte rules (strings, integers, eol, raw_string) are in their own groups.',
        'design': 'DESIGN.md section 5 C06',
    },
}

CLAIMS['C01'] = {
    'text': 'seq, sor, star(=star_partial<R>), plus, opt(=partial<R>), at and not_at: the real instantiated match() bodies (with the real normal<R>::match -> match() -> match_control_unwind -> match_no_control chain inlined) are proved, for every apply mode x rewind mode and pack sizes 1..3 (1..4 thorough), to evaluate their sub-rules exactly as the PEG evaluation rule prescribes (order, positions, short-circuit, first successful alternative from the entry iterator, greedy repetition up to the first failure, predicates consuming nothing) against universally quantified oracle sub-rules that may succeed with any length, fail after moving the cursor when rewinding is optional, or raise. The result/cursor formulas contain neither the apply mode nor the rewind mode.',
    'note': 'Atoms are C10/C15; the lift from per-operator contracts to whole grammars is an induction over the derivation (paper step); partial correctness only (termination is C11); pack sizes above 4 argued by uniformity of the fold expansion.',
    'design': 'DESIGN.md section 5 C01',
}
CLAIMS['C15'] = {
    'text': 'accumulate_digit (all 8 integer types, boundary set of explicit maxima; loop-free, full domain), accumulate_digits (any length: loop contract with a ghost Horner fold in unsigned __int128), convert_unsigned/positive/negative/signed (exact value incl. the most negative value, overflow reported only when the mathematical value is too big, signed-overflow checks on) and match_unsigned/unsigned_rule (numeral syntax 0|[1-9][0-9]*, stated with a ghost probe index) are proved on the real bodies.',
    'note': 'Maximum is a boundary set of concrete values per type (a symbolic Maximum needs a divider circuit; not attempted in quick). accumulate_digit is used as a guarded-form stub inside accumulate_digits (P ==> Q), a consequence of the strict contract proved on its body.',
    'design': 'DESIGN.md section 5 C15',
}

NOT_APPLICABLE = {
    'C14': 'language equality between a recursive grammar and RFC 8259 is not a per-function contract; json.hpp contains no function bodies (DESIGN.md section 5, C14)',
}
