"""what MANIFEST.json claims, per property (kept next to the contracts so that it stays current)"""
NOTES = ('Every check lowers the instantiated PEGTL templates from /repo/include (current working tree) to C on every run '
         '(cached by content hash), weaves the contracts of contracts/g_*.py and discharges them with CBMC code contracts. '
         'exit 0 = all obligations of the property discharged; exit 1 = VIOLATION (failed named obligation, replayed natively under ASan/UBSan when the trace gives an input); '
         'exit 2 = undecided (tool limit, weave mismatch, timeout) and never a violation.')

CLAIMS = {
    'C10': {
        'text': 'For every shipped single-unit rule family (ASCII and ABNF classes, one/not_one/range/not_range/ranges over peek_char, UTF-8, UTF-16 BE/LE, UTF-32 BE/LE, uint8/16/32/64 BE/LE incl. masked variants, the single-element specialisation range<R,Peek,C,C> in both polarities, contrib/predicates.hpp predicate_not / predicates_and / predicates_or over peek_char and peek_utf8) the real match() body, lowered mechanically, is proved for ALL window contents, lengths 0..4096 and cursor offsets to succeed exactly when the next bytes form a well-formed unit (specification written from the Unicode tables / byte arithmetic, not from the code) whose value lies in the documented set, and then to consume exactly the unit length. Loop-free bodies, full-domain symbolic bytes: complete proofs.',
        'note': 'Documented byte sets transcribed by hand from doc/Rule-Reference.md / RFC 5234; template constants are those of the listed instantiations (test_one with symbolic constants is a separate job family); istring folding is in group `str`.',
        'design': 'DESIGN.md section 5 C10',
    },
    'C06': {
        'text': 'internal::bump is proved, for any count, to be the fold of the one-byte position step (ghost fold with its own index, loop contract), and for count<=8 by complete unwinding against the closed-form spec; bump_in_this_line/bump_to_next_line against closed forms; every byte-oriented and UTF-8 single-unit rule proves RC-POS: after success the eager counters equal the spec fold over exactly the consumed bytes (so the bump_in_this_line fast path chosen by bump_help is sound for that rule).',
        'note': 'UTF-16/32 and multi-byte binary rules excluded as the property says. Lazy tracking computes positions with the same bump from the beginning (proved fold). Multi-byte rules (strings, integers, eol, raw_string) are in their own groups.',
        'design': 'DESIGN.md section 5 C06',
    },
}

CLAIMS['C01'] = {
    'text': 'seq, sor, star(=star_partial<R>), plus, opt(=partial<R>), at and not_at: the real instantiated match() bodies (with the real normal<R>::match -> match() -> match_control_unwind -> match_no_control chain inlined) are proved, for every apply mode x rewind mode and pack sizes 1..3 (1..4 thorough), to evaluate their sub-rules exactly as the PEG evaluation rule prescribes (order, positions, short-circuit, first successful alternative from the entry iterator, greedy repetition up to the first failure, predicates consuming nothing) against universally quantified oracle sub-rules that may succeed with any length, fail after moving the cursor when rewinding is optional, or raise. The result/cursor formulas contain neither the apply mode nor the rewind mode.',
    'note': 'Atoms are C10/C15; the lift from per-operator contracts to whole grammars is an induction over the derivation (paper step); partial correctness only (termination is C11); pack sizes above 4 argued by uniformity of the fold expansion.',
    'design': 'DESIGN.md section 5 C01',
}
CLAIMS['C15'] = {
    'text': 'accumulate_digit (all 8 integer types, boundary set of explicit maxima; loop-free, full domain), accumulate_digits (any length: loop contract with a ghost Horner fold in unsigned __int128), convert_unsigned/positive/negative/signed (exact value incl. the most negative value, overflow reported only when the mathematical value is too big, signed-overflow checks on) and match_unsigned/unsigned_rule (numeral syntax 0|[1-9][0-9]*, stated with a ghost probe index) are proved on the real bodies.',
    'note': 'Maximum is a boundary set of concrete values per type (a symbolic Maximum needs a divider circuit; not attempted in quick). accumulate_digit is used as a guarded-form stub inside accumulate_digits (P ==> Q), a consequence of the strict contract proved on its body.',
    'design': 'DESIGN.md section 5 C15',
}

CLAIMS['C02'] = {
    'text': 'Rule contract RC on every rule brought under contract: RC-REWIND (local failure with rewinding required leaves pointer, byte, line and column exactly as at entry), RC-MONO (the cursor never moves backwards, on success, failure and exception), RC-LOOK (look-ahead rules never move it). Leaves (one-argument match: all unit rules, string, istring, bytes, eof, eol x5, eolf, bof, bol, everything, integer rules) are proved on their real bodies over symbolic windows; combinators (seq, sor, star, plus, opt, at, not_at, until x2, rep, rep_opt, rep_min_max, if_then_else, strict, star_strict, must, if_must, raise, try_catch_return_false, try_catch_raise_nested) and the match() dispatcher (bool actions veto with the cursor restored) against oracle sub-rules that may fail after consuming when rewinding is optional.',
    'note': 'Not under contract (listed, not silently skipped): http chunk rules, list/pad aliases (compositions), discard, buffer_input beyond require(). See DESIGN.md section 11.3.',
    'design': 'DESIGN.md section 5 C02',
}
CLAIMS['C03'] = {
    'text': 'Every leaf proof runs with CBMC pointer checks on an input window that is an exact-size heap object (so a read at or beyond end() is an out-of-object read whatever the surrounding buffer), for all window sizes 0..4096, all cursor offsets and all contents; bump/bump_in_this_line/bump_to_next_line are replaced by contracts whose precondition "count <= bytes left" is an obligation at every call site.',
    'note': 'Functions that read the input and are under contract with these pointer checks: the unit rules (leaf), string/istring/bytes/eol rules (str), integer rules (int), raw_string parts (raw), limit_bytes/check_bytes (limits), unescape actions (unesc), buffer_input::require/size/empty/discard (buf), memory_input::at/begin_of_line/end_of_line/line_at (memin), the uri IP-literal rules (uri), http::chunk_size and chunk_data (http). Not under contract: the remaining contrib grammars (json, abnf, http header rules: compositions of rules under contract), rematch sub-inputs beyond the C06 jobs, file/mmap/stream readers (OS and libc: trusted). Combinators never dereference the input (they only call rules). The eager http::chunk_data jobs are restricted to sizes <= 8 and labelled bounded.',
    'design': 'DESIGN.md section 5 C03',
}
CLAIMS['C04'] = {
    'text': 'The real match<Rule,A,M,Action,Control>() dispatcher (with match_control_unwind, unwind_guard, normal<Rule>::apply/apply0 and action_input) is proved for every apply mode x rewind mode x {no action, void apply, bool apply, void apply0, bool apply0} x {control with unwind, without unwind, normal}: the action runs exactly once iff the rule matched and actions are enabled, after the rule and before the closing hook, with an action input spanning exactly [entry iterator, cursor after the match); a void action changes neither result nor cursor; a false bool action turns the match into a local failure with the cursor restored; at/not_at call their sub-rule with actions disabled (stub precondition); internal::disable/enable/action/control/apply/apply0/if_apply (group act) and the switch classes enable_action, disable_action, change_action, change_control, change_state, change_action_and_state, internal::state (group state) hand their sub-rule exactly the apply mode they promise (stub-apply-mode precondition).',
    'note': 'change_states / change_action_and_states (std::tuple) are outside the lowering; the whole-run ordering statement is the induction over the derivation (paper step).',
    'design': 'DESIGN.md section 5 C04',
}
CLAIMS['C05'] = {
    'text': 'must, if_must (both defaults), raise with the real normal<Rule>::raise: a parse_error is raised exactly when the must-rule fails locally, by the raise() of exactly that rule, with the position of the cursor where the attempt stopped (>= where it began); every combinator under contract passes a sub-rule exception on unchanged (same object identity and type); try_catch_return_false converts exactly the named exception types (static subtype table) into a local failure, restoring the cursor when rewinding is required, and try_catch_raise_nested raises a new parse_error for its rule at the start position of the attempt with the original as nested exception.',
    'note': 'what() text and the parse_error/position constructors are std::string code (trusted throw stub); must_if<Errors>::control is proved as the control of the real match() for four error tables (message / raise_on_failure combinations).',
    'design': 'DESIGN.md section 5 C05',
}
CLAIMS['C08'] = {
    'text': 'On the real match() dispatcher with opaque control hooks sharing a ghost protocol automaton: start exactly once, then the rule, then (if enabled) the action, then exactly one of success / failure / unwind; success iff the rule matched and the action accepted, failure iff local failure, unwind iff an exception leaves the attempt (whether raised by the rule or by its action); hooks out of order fail the stub precondition; destructors of the exceptional edge run with the exception in flight.',
    'note': 'state_control, remove_first_state, control_action forwarders, coverage counters and shuffle_states are not under contract; std::optional in unwind_guard is a trusted model.',
    'design': 'DESIGN.md section 5 C08',
}
CLAIMS['C09'] = {
    'text': 'Hand-written convenience rules are proved against K-contracts = the PEG evaluation of their documented expansion: until<C>, until<C,R>, rep<N>, rep_opt<N>, rep_min_max<Min,Max>, if_then_else, strict, star_strict, if_must/opt_must, must (ghost automata over oracle sub-rules, loops closed by loop contracts), and the leaves string, bytes, eolf, eof, bof, bol, everything, success, failure against closed-form byte-level specifications.',
    'note': 'Alias-defined rules (list*, pad*, rep_min, rep_max, minus, star_must, if_must_else, two/three, keyword, identifier, shebang, contrib if_then chains) are compositions of rules under contract: their rule_t is compared by the compiler with the documented expansion (bounded/alias_identity.cpp, 31 type identities, listed with the native stand-ins); rematch (1-3 rules) and contrib rep_one_min_max are under contract too; K-contracts are hand transcriptions of doc/Rule-Reference.md.',
    'design': 'DESIGN.md section 5 C09',
    'technique': 'contract-based deductive verification: CBMC 6.11 code contracts (goto-instrument --dfcc) on a mechanical C lowering of the instantiated templates; type identities checked by the compiler for the alias-defined rules',
}

CLAIMS['C13'] = {
    'text': 'internal::state, change_state, change_action_and_state (constructor from (input, outer states) and default constructor variants): the new state object is constructed exactly once before the rule with the outer states, the rule is called with exactly that object (and not the outer states), success(input, outer states) runs exactly once iff the rule matched (for the action-based variants: and actions are enabled) with the cursor after the match, and the destructor runs exactly once on success, local failure and exception, with no success() on the latter two. change_action, change_control, enable_action, disable_action, internal::action, internal::control, disable, enable call exactly the sub-rule instantiation carrying the new template argument and are otherwise transparent.',
    'note': 'change_states / change_action_and_states (std::tie/std::get tuples) not under contract; the state object is an opaque stub with a ghost life-cycle automaton.',
    'design': 'DESIGN.md section 5 C13',
}

CLAIMS['C16'] = {
    'text': 'raw_string_open and at_raw_string_close are proved, for any marker count (loop contracts, ghost probe and witness indices instead of quantifiers), to accept exactly opening / closing long brackets of level n (both directions), the opening rule skipping exactly one immediately following line ending; raw_string_until (both forms) is proved to stop at the first position where its condition holds, against an oracle condition that must be called with the marker size; raw_string::match is proved against stubs carrying those contracts: success consumes through the closing bracket, failure without open or without close restores the cursor when rewinding is required.',
    'note': '"first closing bracket of the same level" is the composition of the until protocol with the close predicate (paper step); Open/Marker/Close are the Lua characters of the instantiation; the content action span is C04 on the real dispatcher.',
    'design': 'DESIGN.md section 5 C16',
}
CLAIMS['C18'] = {
    'text': 'limit_bytes (bytes_guard), check_bytes and limit_depth (depth_guard, input_with_depth) on the real bodies: while the guarded rule (an oracle stub) runs, the end of the input is exactly min(real end, start of the match + Maximum) (stub precondition, for a match starting anywhere in the window) and the depth counter is entry + 1 <= Maximum; the end and the depth counter are restored on success, local failure and exception; a parse_error is raised exactly when the depth is exceeded / only when the limit was hit.',
    'note': 'Maximum values are those of the instantiations (6 bytes, depth 3); the guarded rule is an oracle stub.',
    'design': 'DESIGN.md section 5 C18',
}

CLAIMS['C17'] = {
    'text': 'utf8_append_utf32 is proved over all 2^32 arguments (loop-free): it reports success exactly for Unicode scalar values, then appends exactly the well-formed encoding (written from Unicode table 3-6, and shown to round-trip through the table 3-7 decoder specification of C10), and appends nothing on rejection; unhex_char maps the 22 permitted characters to their values with std::terminate unreachable; unhex_string (<= 8 digits) equals the base-16 Horner value; unescape_c maps each escaped character to its listed value; unescape_j on one, two or three consecutive escapes combines a high/low surrogate pair into the single code point, encodes every other escape individually and raises exactly for lone surrogates, reading its hex digits only inside the action input.',
    'note': 'std::string += / append are assumed contracts over a ghost output buffer; unescape_j bounded to <= 3 escapes (pair followed by a further escape included), unhex_string to <= 8 digits (complete unwinding); unescape_u / unescape_x are thin wrappers over the proved helpers and not separately under contract; the json_unescape example is not under contract.',
    'design': 'DESIGN.md section 5 C17',
}
CLAIMS['C19'] = {
    'text': 'memory_input::at, begin_of_line, end_of_line and line_at are proved, for positions characterised by ghost offsets as obtained from this input, to return exactly the byte of the position, the start of its line and the first line ending of the input\'s policy at or after it (or the end of the input), always inside the input and without raising: at/begin_of_line for eager and lazy inputs under lf_crlf plus begin_of_line under cr_crlf; end_of_line (the real until< at< eolf > > loop on the nested lazy sub-input, under a loop contract, unbounded input length) for eager and lazy lf_crlf and for eager cr_crlf, lf, cr and crlf (all five shipped policies); line_at (eager and lazy under lf_crlf, eager under crlf and lf; real begin_of_line, end_of_line and string_view constructor below it) returns exactly the bytes from the start of the line to that line ending; when the input was constructed with default initial counters. With non-default initial counters the at/begin_of_line obligations fail (open known finding D9).',
    'note': 'end_of_line with non-default initial counters is not covered; end_of_line for lazy inputs under the four non-default policies only in the thorough tier; positions are characterised by ghost offsets, not traced through a parsing run; std::find is an assumed contract where an implementation of end_of_line uses it.',
    'design': 'DESIGN.md section 5 C19',
}

CLAIMS['C07'] = {
    'text': 'buffer_input (Chunk 8, any capacity <= 512) as a data structure against an abstract stream view, with the reader an oracle that may return any number 0..length of the next stream bytes (every short-read pattern) and 0 only at end of stream: require(amount), size(amount) and empty() keep the shape invariant buffer <= current <= end <= buffer+capacity, never move the cursor, keep the window equal to the stream segment (ghost probe index), pass the reader only ranges inside the buffer, and raise nothing but std::overflow_error, and only when amount does not fit behind the cursor. The clause "at least amount bytes or end of stream afterwards" fails for short reads: open known finding D7. discard() is proved to leave at most Chunk bytes before the cursor (so that maximum bytes of look-ahead always fit), to keep the number of unconsumed bytes and the position, and never to raise (memmove replaced by a havoc of the destination: which bytes end up where is the libc contract).',
    'note': 'cstring_reader, istream/cstream readers, mmap/stdio file inputs and argv/string inputs are not under contract (OS and libc behaviour: trusted); interface equivalence with memory_input is argued from the shared accessor contracts (paper step).',
    'design': 'DESIGN.md section 5 C07',
}

CLAIMS['C11'] = {
    'text': 'Soundness of analyze() is split into per-rule premises, which are PROVED on the real rule bodies, and the graph traversal work(), which is only BOUNDED-checked. '
            'Premises: the consumption expression, the left-call accumulators and the back-references the analysis uses for a rule are read on every run from the REAL analyze_traits '
            '(a generated C++ program folds analyze_traits<Rule> exactly as work() does, opaque sub-rules staying symbolic bits g_c[i]); against them every rule under contract proves '
            'P1 "traits say consumes-on-success => a successful match consumed > 0" (all unit rules, string/istring/bytes/eol, integer rules, raw_string, seq, sor, opt, star, plus, at, not_at, until, rep, rep_opt, rep_min_max, '
            'if_then_else, must, if_must, try_catch_*, action/apply/if_apply/enable/disable/control/state), '
            'P3a "a sub-rule is called at the entry position only if the analysis visits it without accumulated consumption" and '
            'P3b "where the traits carry a back-reference, two calls of one sub-rule at the same position happen only if the back-reference is entered without consumption; without back-reference the number of calls is bounded by the documented count". '
            'Traversal: BOUNDED (not proved): the real analyze_cycles_impl is run natively on all 141404 abstract grammars with <= 3 names and <= 2 sub-rules per rule and compared with an independent left-call-graph oracle (no unsound verdict; found defect D12, fixed).',
    'note': 'work() uses std::map/std::set/std::string_view and recursion over a cyclic graph: outside the lowering and CBMC loop contracts, hence the bounded native stand-in (labelled bounded in the evidence, not counted in obligations/discharged). '
            'The lift from premises + traversal to whole grammars is an induction on paper (DESIGN.md). Rules without analyze_traits (strict, star_strict) cannot be analysed at all (compile error), rematch, rep_one_min_max, predicates.hpp and list/pad aliases are not under contract. '
            'Termination of counted loops is by their template bound (call-count clause), not by a decreases clause.',
    'design': 'DESIGN.md section 5 C11 and section 11',
    'technique': 'CBMC code contracts on the lowered rule bodies against trait expressions generated from the real analyze_traits; bounded exhaustive native enumeration for analyze_cycles_impl::work()',
}

CLAIMS['C20'] = {
    'text': 'PARTIAL. PROVED (CBMC contracts, every callee the real lowered code, complete unwinding with unwinding assertions: all loops are bounded by template constants or by the 255 limit): '
            'seq<IPv4address, eof>, seq<dec_octet, eof>, seq<h16, eof>, seq<ls32, eof> accept exactly the strings of the RFC 3986 section 3.2.2 productions (recogniser written from the RFC), consume the whole input then, restore the cursor otherwise and never raise; '
            'the building blocks of IPv6address - h16, ls32, the left parts opt<h16, rep_opt<K, ":", h16>> (K = 0..6) and the counted groups rep<N, h16, ":"> (N = 2..6) - are proved against PEG prefix-length functions for exactly the instantiations IPv6address calls '
            '(h16 replaced by an executable summary that is itself proved). '
            'BOUNDED (not proved): (a) the whole IPv6address rule followed by eof, and the same literal as host of URI / URI-reference / absolute-URI, run natively against the RFC recogniser on ~4.8 million strings '
            '(all strings over {1,a,:,.,g} up to length 7, all group-count shapes with and without "::" and IPv4 tails, all single-character edits of them); '
            '(b) URI, URI-reference and absolute-URI followed by eof run natively against a language-exact recogniser of RFC 3986 Appendix A (every production maps a set of start positions to the set of end positions, so ordered choice cannot hide a derivation) '
            'on ~3 million strings: every string over "a1:/?#[]@.%,+-" up to length 5 (6 in thorough) and the product of component samples (schemes x userinfo x 16 host forms x ports x paths x queries x fragments). '
            'This part found D13 (a reg-name host that starts like an IPv4address is rejected), listed as an open known finding. '
            'NOT DECIDED: the URI-level rules beyond the enumerated space (unbounded star/plus over a regular language).',
    'note': 'Windows of at most 48 bytes with the cursor at the start (the longest IPv6 literal has 45 bytes; the rules read at most one byte beyond a literal). The whole IPv6address rule in one CBMC job needed 28-38 GB / gave no answer in 25 min (real bodies, or all components summarised), '
            'and the spec-against-spec lemma "PEG composition = RFC language" gave no answer in 20 min: hence the bounded native stand-in, listed under bounded_native_stand_ins in the evidence and not counted in obligations/discharged. '
            'D13: host = sor<IP_literal, IPv4address, reg_name> commits to an IPv4address prefix, so "a://1.2.3.4a" (a valid reg-name host) is rejected: open known finding, matched by the class label the enumerator prints.',
    'design': 'DESIGN.md section 5 C20',
    'technique': 'CBMC code contracts on the lowered rule bodies with complete unwinding and assume-guarantee summaries; bounded exhaustive native enumeration for the whole IPv6address rule and for the URI-level rules',
}

NOT_APPLICABLE = {
    'C12': 'parse_tree builds std::vector<std::unique_ptr<node>> trees through control hooks and transformers; the lowering has no model of std::vector of owning pointers and the property is about whole parsing runs (which nodes survive backtracking), not one call: no contract within reach of CBMC expresses it (DESIGN.md section 5, C12). The hook protocol it relies on is C08.',
    'C14': 'language equality between a recursive grammar and RFC 8259 is not a per-function contract; json.hpp contains no function bodies (DESIGN.md section 5, C14)',
}
