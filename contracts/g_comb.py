"""group `comb`: the classical PEG operators (C01) on the real instantiated bodies with oracle
sub-rules: seq, sor, star(=star_partial<R>), plus, opt(=partial<R>), at, not_at.
Also carries RC-REWIND/RC-MONO (C02), look-ahead apply mode (C04) and exception propagation (C05)."""
from vfcore import R, E, A, Contract, Job
from common import *

NAME = 'comb'
ASSUMPTIONS = [
    'sub-rules are universally quantified oracle stubs with the weakest rule contract (RC-VALID, RC-MONO, RC-REWIND when required; iterator havocked inside the window on failure when optional; may raise)',
    'pack sizes 1..3 (quick) / 1..4 (thorough) are instantiated; larger packs are the same fold shape (uniformity argued, not proved)',
    'PEG semantics of an operator = its evaluation rule over sub-results that are functions of the start position (determinism of sub-rules: paper step)',
    'partial correctness: star/plus over a nullable body diverge in the formalism too (termination is C11)',
]

AM = [(a, m) for a in (0, 1) for m in (0, 1)]


def rname(op, n, a, m, tr):
    return '%s%d_A%dM%d_%s' % (op, n, a, m, 'e' if tr == 'eager' else 'l')


def rules_list(n):
    return ', '.join('R<%d>' % i for i in range(n))


OPS = {
    'seq': lambda n: 'internal::seq< %s >' % rules_list(n),
    'sor': lambda n: 'internal::sor< %s >' % rules_list(n),
    'star': lambda n: 'internal::star< R<0> >',
    'plus': lambda n: 'internal::plus< R<0> >',
    'opt': lambda n: 'internal::opt< R<0> >',
    'at': lambda n: 'internal::at< R<0> >',
    'not_at': lambda n: 'internal::not_at< R<0> >',
}
SIZES = {'seq': (1, 2, 3), 'sor': (1, 2, 3), 'star': (1,), 'plus': (1,), 'opt': (1,), 'at': (1,), 'not_at': (1,)}
SIZES_THOROUGH = {'seq': (1, 2, 3, 4), 'sor': (1, 2, 3, 4)}


def all_roots():
    out = []
    for op, mk in OPS.items():
        for n in sorted(set(SIZES[op]) | set(SIZES_THOROUGH.get(op, ()))):
            for a, m in AM:
                for tr in ('eager', 'lazy'):
                    out.append((op, n, a, m, tr))
    return out


def tu():
    s = TU_PROLOGUE
    for op, n, a, m, tr in all_roots():
        s += tu_root(rname(op, n, a, m, tr), INPUT_TYPES[(tr, 'lf_crlf')],
                     '%s::match< A%d, M%d, nothing, normal >( in )' % (OPS[op](n), a, m))
    return s


def conj(xs):
    return '(' + ' && '.join(xs) + ')' if xs else '1'


def disj(xs):
    return '(' + ' || '.join(xs) + ')' if xs else '0'


def spec_for(op, n, a, m):
    """(stub automaton, operator postconditions)"""
    P = ('C01',)
    if op == 'seq':
        spec = {i: dict(A=str(a), next_ok=str(i + 1) if i + 1 < n else 'T_NONE', next_fail='T_NONE') for i in range(n)}
        allok = conj(['g_called[%d] && g_ok[%d]' % (i, i) for i in range(n)])
        somefail = disj(['(g_called[%d] && !g_ok[%d])' % (i, i) for i in range(n)])
        post = [
            E('!vf_exc.pending ==> (RET == %s)' % allok, 'SEQ-RESULT', P),
            E('(!vf_exc.pending && !RET) ==> %s' % somefail, 'SEQ-FAIL-CAUSE', P),
            E('(!vf_exc.pending && RET) ==> CONSUMED(in) == %s' % ' + '.join('g_len[%d]' % i for i in range(n)), 'SEQ-CONSUMED', P),
        ]
        return spec, post
    if op == 'sor':
        spec = {i: dict(A=str(a), next_ok='T_NONE', next_fail=str(i + 1) if i + 1 < n else 'T_NONE', at_entry=True, pos_fail='entry') for i in range(n)}
        anyok = disj(['(g_called[%d] && g_ok[%d])' % (i, i) for i in range(n)])
        allfail = conj(['(g_called[%d] && !g_ok[%d])' % (i, i) for i in range(n)])
        first = ' && '.join('((g_called[%d] && g_ok[%d]) ==> CONSUMED(in) == g_len[%d])' % (i, i, i) for i in range(n))
        post = [
            E('!vf_exc.pending ==> (RET == %s)' % anyok, 'SOR-RESULT', P),
            E('(!vf_exc.pending && !RET) ==> %s' % allfail, 'SOR-ALL-TRIED', P),
            E('(!vf_exc.pending && RET) ==> (%s)' % first, 'SOR-FIRST-WINS', P),
        ]
        return spec, post
    if op == 'star':
        spec = {0: dict(A=str(a), M='0', next_ok='0', next_fail='T_NONE', done_on_fail=True, pos_fail='same')}
        post = [
            E('!vf_exc.pending ==> (RET == 1 && g_done == 1 && OFF(CUR(in)) == g_pos)', 'STAR-GREEDY', P),
        ]
        return spec, post
    if op == 'plus':
        spec = {0: dict(A=str(a), next_ok='0', next_fail='T_NONE', done_on_fail=True, pos_fail='same',
                        requires=[R('g_iter == 0 || %d == 0' % 0, 'noop')])}
        post = [
            E('!vf_exc.pending ==> (g_done == 1 && RET == (g_iter > 0))', 'PLUS-RESULT', P),
            E('(!vf_exc.pending && RET) ==> OFF(CUR(in)) == g_pos', 'PLUS-GREEDY', P),
        ]
        return spec, post
    if op == 'opt':
        spec = {0: dict(A=str(a), M='0', next_ok='T_NONE', next_fail='T_NONE')}
        post = [
            E('!vf_exc.pending ==> (RET == 1 && g_called[0] && CONSUMED(in) == (g_ok[0] ? g_len[0] : (size_t)0))', 'OPT-RESULT', P),
        ]
        return spec, post
    if op in ('at', 'not_at'):
        spec = {0: dict(A='0', next_ok='T_NONE', next_fail='T_NONE')}
        post = [
            E('!vf_exc.pending ==> (g_called[0] && RET == %s)' % ('g_ok[0]' if op == 'at' else '!g_ok[0]'), 'AT-RESULT', P),
            E('ITER_UNCHANGED(in)', 'RC-LOOK', ('C01', 'C02')),
        ]
        return spec, post
    raise KeyError(op)


def plus_stub(a, m):
    """plus: first call carries the caller's mode M, later calls must rewind"""
    base = rule_stub({0: dict(A=str(a), next_ok='0', next_fail='T_NONE', done_on_fail=True, pos_fail='same')})

    def mk(fi):
        c = base(fi)
        if c is None:
            return None
        i, sa, sm = parse_stub(fi)
        # after the first iteration the body must be called with rewind required
        c.clauses.insert(1, R('g_iter == 0 || %d == 0' % sm, 'stub-rewind-mode', ('C01', 'C02')))
        return c
    return mk


LOOP_INV = ('__CPROVER_assigns(IT_FIELDS(in), g_turn, g_pos, g_done, g_iter, g_last, g_called[0], g_ok[0], g_len[0], g_ncalls[0], g_ae[0], g_re[0], g_lp[0], g_cur, vf_exc, vf_exc_counter, g_exc_obj, g_exc_type)\n'
            '__CPROVER_loop_invariant(VALID_STUB(in) && EXC_OK && g_done == 0 && g_turn == 0 && OFF(CUR(in)) == g_pos'
            ' && IN_END(in) == __CPROVER_loop_entry(IN_END(in)) && IN_BEGIN(in) == __CPROVER_loop_entry(IN_BEGIN(in))'
            ' && OFF(CUR(in)) >= OFF(__CPROVER_loop_entry(CUR(in))) %s)')


def jobs(tier):
    out = []
    TR = traits_of(NAME, {'%s%d' % (op, n): OPS[op](n) for op in OPS for n in sorted(set(SIZES[op]) | set(SIZES_THOROUGH.get(op, ())))})
    for op, n, a, m, tr in all_roots():
        if n not in SIZES[op] and tier != 'thorough':
            continue
        if tr == 'lazy' and tier != 'thorough' and not (a == 1 and m == 0):
            continue
        spec, post = spec_for(op, n, a, m)
        con = Contract(comb_requires(), comb_assigns())
        for c in comb_common(m, props_rewind=('C02', 'C01')):   # sor/star/opt backtracking (C01) relies on a failed operator having restored the cursor
            con.add(c)
        for c in post:
            con.add(c)
        tq = TR['%s%d' % (op, n)]
        nsub = n if op in ('seq', 'sor') else 1
        for c in c11_premises(tq, nsub):
            con.add(c)
        con.add(E('vf_canary', 'canary_exit'))
        stub = plus_stub(a, m) if op == 'plus' else rule_stub(spec)
        loops = {}
        if op == 'star':
            loops = {(r'internal::star_partial<.*>::match<', 1): LOOP_INV % c11_loop_inv(tq, 1)}
        if op == 'plus':
            loops = {(r'internal::plus<.*>::match<', 1): LOOP_INV % ('&& g_iter >= 1' + c11_loop_inv(tq, 1))}
        j = Job(rname(op, n, a, m, tr), NAME, rname(op, n, a, m, tr), con,
                ('C01', 'C02', 'C05', 'C11'), stubs=[(r'^bool vf::R<\d+>::match<', stub)], loops=loops,
                prelude=comb_prelude(tr),
                harness=comb_harness('vf_' + INPUT_TYPES[(tr, 'lf_crlf')], tr, 'w_ret = $ENTRY(&in)'),
                expect_fail_canary=('canary_exit',),
                desc='%s (pack %d) apply_mode=%s rewind_mode=%s on memory_input<%s>, sub-rules = oracle stubs' % (
                    op, n, 'action' if a else 'nothing', 'optional' if m else 'required', tr))
        out.append(j)
    return out
