"""group `http`: contrib/http.hpp rules with hand-written match() bodies: chunk_data (consumes exactly the `size` bytes
announced by chunk_size, or fails without consuming). Serves C03 (no read / consume past the end), C02 (rewind), C06."""
from vfcore import R, E, A, Contract, Job
from common import *
import g_pos

NAME = 'http'
ASSUMPTIONS = ['chunk_data is exercised with a universally quantified size argument; the chunk_helper control that passes the size parsed by chunk_size as the first state is not under contract']

TRACKINGS = [('eager', 'e'), ('lazy', 'l')]


def tu():
    s = TU_PROLOGUE.replace('namespace vf', '#include <tao/pegtl/contrib/http.hpp>\nnamespace vf', 1)
    for tr, sfx in TRACKINGS:
        for m in (0, 1):
            s += tu_root('chunk_data_M%d_%s' % (m, sfx), INPUT_TYPES[(tr, 'lf_crlf')],
                         'http::chunk_data::match< A1, M%d, nothing, normal >( in, size )' % m, extra_params=', const std::size_t size')
    return s


def jobs(tier):
    out = []
    for tr, sfx in TRACKINGS:
        for m in (0, 1):
            extra = [
                E('RET == (AVAIL_OLD(in) >= size)', 'CHUNK-DATA-SUCCEEDS-IFF-SIZE-BYTES-ARE-AVAILABLE', ('C03',)),
                E('RET ==> CONSUMED(in) == size', 'CHUNK-DATA-CONSUMES-EXACTLY-SIZE-BYTES', ('C03',)),
            ]
            con = rc_leaf(tr, 'lf_crlf', progress=False, extra=extra, pos=True)
            name = 'chunk_data_M%d_%s' % (m, sfx)
            # eager: internal::bump is replaced by its contract, which is proved against the position fold for count <= 8 only
            bnd = 'size argument <= 8 whenever that many bytes are available (eager bump replaced by its contract, proved for count <= 8); failing sizes unrestricted' if tr == 'eager' else None
            out.append(Job(
                name=name, group=NAME, root=name, contract=con, bounded=bnd,
                props=('C03', 'C02', 'C06'), prelude=prelude(tr) + g_pos.PRE_STUB, stubs=g_pos.pos_stubs(),
                harness=input_harness('vf_' + INPUT_TYPES[(tr, 'lf_crlf')], tr, 'w_ret = $ENTRY(&in, w_size)', extra_decl='  size_t w_size;\n' + ('  __CPROVER_assume(w_size <= 8 || w_size > g_n - k);\n' if tr == 'eager' else '')),
                expect_fail_canary=canaries(), desc='http::chunk_data::match (rewind mode M%d) on memory_input<%s>, any size argument' % (m, tr)))
    return out
