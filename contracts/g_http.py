"""group `http`: contrib/http.hpp rules with hand-written match() bodies: chunk_size (hex-digit loop, loop contract) and chunk_data (consumes exactly the `size` bytes
announced by chunk_size, or fails without consuming). Serves C03 (no read / consume past the end), C02 (rewind), C06."""
from vfcore import R, E, A, Contract, Job, Clause
from common import *
import g_pos

NAME = 'http'
ASSUMPTIONS = ['chunk_data is exercised with a universally quantified size argument; the chunk_helper control that passes the size parsed by chunk_size as the first state is not under contract']

TRACKINGS = [('eager', 'e'), ('lazy', 'l')]


def tu():
    s = TU_PROLOGUE.replace('namespace vf', '#include <tao/pegtl/contrib/http.hpp>\nnamespace vf', 1)
    for tr, sfx in TRACKINGS:
        for m in (0, 1):
            s += tu_root('chunk_data_M%d_%s' % (m, sfx), INPUT_TYPES[(tr, 'lf_crlf')],
                         'http::chunk_data::match< A1, M%d, nothing, normal >( in, size )' % m, extra_params=', const std::size_t size')
        s += tu_root('chunk_size_%s' % sfx, INPUT_TYPES[(tr, 'lf_crlf')],
                     'http::chunk_size::match< A1, M0, nothing, normal >( in, size )', extra_params=', std::size_t& size')
    return s


CS_PRE = '''
const char* g_p0; size_t g_k;    /* ghost: cursor at entry, probe index */
#define ISHEX(c) (((c) >= '0' && (c) <= '9') || ((c) >= 'a' && (c) <= 'f') || ((c) >= 'A' && (c) <= 'F'))
#define P0H ((const char*)UOLD(in))
'''
CS_LOOP = ('__CPROVER_assigns(i, *size)\n'
           '__CPROVER_loop_invariant(i <= g_n - OFF(g_p0) && ITER_UNCHANGED_LOOP(in) && PTRS_OK(in) && __CPROVER_same_object(g_p0, CUR(in)) && OFF(g_p0) == OFF(CUR(in))'
           ' && ((g_k < i) ==> ISHEX(g_p0[g_k])))\n'
           '__CPROVER_decreases(g_n - OFF(g_p0) - i)')


def jobs(tier):
    out = []
    for tr, sfx in TRACKINGS:
        lp = '#define ITER_UNCHANGED_LOOP(in) (CUR(in) == __CPROVER_loop_entry(CUR(in))%s)\n' % (
            ' && BYTE(in) == __CPROVER_loop_entry(BYTE(in)) && LINE(in) == __CPROVER_loop_entry(LINE(in)) && COL(in) == __CPROVER_loop_entry(COL(in))' if tr == 'eager' else '')
        extra = [
            E('RET == (AVAIL_OLD(in) >= 1 && ISHEX(P0H[0]))', 'CHUNK-SIZE-SUCCEEDS-IFF-A-HEX-DIGIT-IS-NEXT', ('C03',)),
            E('(g_k < CONSUMED(in)) ==> ISHEX(P0H[g_k])', 'CHUNK-SIZE-CONSUMES-ONLY-HEX-DIGITS', ('C03',)),
            E('CONSUMED(in) == AVAIL_OLD(in) || !ISHEX(P0H[CONSUMED(in)])', 'CHUNK-SIZE-CONSUMES-ALL-LEADING-HEX-DIGITS', ('C03',)),
        ]
        # RC-POS (the position fold over the consumed bytes) is evaluated by unwinding the spec fold and cannot be used for an unbounded
        # number of consumed bytes; for eager inputs the equivalent statement is: only hex digits (no line ending) were consumed (clause
        # above), the line is unchanged and byte and column advanced by the consumed length
        if tr == 'eager':
            extra.append(E('LINE(in) == OLD(LINE(in)) && COL(in) == OLD(COL(in)) + CONSUMED(in) && BYTE(in) == OLD(BYTE(in)) + CONSUMED(in)',
                           'CHUNK-SIZE-POSITION-ADVANCES-WITHIN-THE-LINE-BY-THE-CONSUMED-LENGTH', ('C06',)))
        con = rc_leaf(tr, 'lf_crlf', progress=True, extra=extra, pos=False)
        con.add(R('__CPROVER_w_ok(size, sizeof(size_t)) && g_p0 == CUR(in)', 'size-state-writable'))
        con.add(Clause('assigns', '*size'))
        name = 'chunk_size_%s' % sfx
        out.append(Job(
            name=name, group=NAME, root=name, contract=con,
            props=('C03', 'C02', 'C06'), prelude=prelude(tr) + CS_PRE + lp + g_pos.PRE_STUB, stubs=g_pos.pos_stubs(),
            loops={(r'http::chunk_size::match<', 1): CS_LOOP},
            harness=input_harness('vf_' + INPUT_TYPES[(tr, 'lf_crlf')], tr, 'w_ret = $ENTRY(&in, &w_size)', extra_decl='  size_t w_size;\n', pre_call='  g_p0 = CUR(&in);\n'),
            expect_fail_canary=canaries(), desc='http::chunk_size::match on memory_input<%s>: the hex-digit loop under a loop contract (the accumulated value is not specified: it wraps for more than 16 digits)' % tr))
    for tr, sfx in TRACKINGS:
        for m in (0, 1):
            extra = [
                E('RET == (AVAIL_OLD(in) >= size)', 'CHUNK-DATA-SUCCEEDS-IFF-SIZE-BYTES-ARE-AVAILABLE', ('C03',)),
                E('RET ==> CONSUMED(in) == size', 'CHUNK-DATA-CONSUMES-EXACTLY-SIZE-BYTES', ('C03',)),
            ]
            con = rc_leaf(tr, 'lf_crlf', progress=False, extra=extra, pos=True)
            name = 'chunk_data_M%d_%s' % (m, sfx)
            # eager: internal::bump is replaced by its contract, which is proved against the position fold for count <= 8 only
            bnd = 'size argument <= 8 whenever that many bytes are available (eager bump replaced by its contract, proved for count <= 8); failing sizes unrestricted' if tr == 'eager' else None
            out.append(Job(
                name=name, group=NAME, root=name, contract=con, bounded=bnd,
                props=('C03', 'C02', 'C06'), prelude=prelude(tr) + g_pos.PRE_STUB, stubs=g_pos.pos_stubs(),
                harness=input_harness('vf_' + INPUT_TYPES[(tr, 'lf_crlf')], tr, 'w_ret = $ENTRY(&in, w_size)', extra_decl='  size_t w_size;\n' + ('  __CPROVER_assume(w_size <= 8 || w_size > g_n - k);\n' if tr == 'eager' else '')),
                expect_fail_canary=canaries(), desc='http::chunk_data::match (rewind mode M%d) on memory_input<%s>, any size argument' % (m, tr)))
    return out
