"""group `state`: state and action/control switching is scoped to the attached rule (C13):
internal::state, change_state, change_action_and_state, change_action, change_control,
enable_action, disable_action."""
from vfcore import R, E, A, Contract, Job, Clause
from common import *

NAME = 'state'
ASSUMPTIONS = ['the new state object is opaque (constructor, success(), destructor are stubs sharing a ghost life-cycle automaton)',
               'change_states / shuffle_states (std::tie, std::get on tuples) are not under contract']

TU_EXTRA = r'''
namespace vf {
struct OS { int tag; };                                   // the outer state
struct VS  { template< typename In > VS( const In&, OS& ); ~VS(); template< typename In > void success( const In&, OS& ); };
struct VSD { VSD(); ~VSD(); template< typename In > void success( const In&, OS& ); };
template< typename Rule > struct ACS  : change_state< VS > {};
template< typename Rule > struct ACSD : change_state< VSD > {};
template< typename Rule > struct NA : nothing< Rule > {};
template< typename Rule > struct NA2 : nothing< Rule > {};
template< typename Rule > struct ACAS : change_action_and_state< NA2, VS > {};
template< typename Rule > struct ACASD : change_action_and_state< NA2, VSD > {};
template< typename Rule > struct NC : normal< Rule > {};
}
'''
AM = [(a, m) for a in (0, 1) for m in (0, 1)]
OPS = {
    'state': ('internal::state< VS, R<0> >::match< A%d, M%d, nothing, normal >( in, os )', 'VS', None),
    'stated': ('internal::state< VSD, R<0> >::match< A%d, M%d, nothing, normal >( in, os )', 'VSD', None),
    'chstate': ('change_state< VS >::match< R<0>, A%d, M%d, ACS, normal >( in, os )', 'VS', 'action-only'),
    'chstated': ('change_state< VSD >::match< R<0>, A%d, M%d, ACSD, normal >( in, os )', 'VSD', 'action-only'),
    # the same switch reached the way a grammar reaches it: normal< Rule >::match dispatches to Action< Rule >::match in every apply mode
    'nchstate': ('normal< R<0> >::match< A%d, M%d, ACS, normal >( in, os )', 'VS', 'action-only'),
    'chactst': ('change_action_and_state< NA2, VS >::match< R<0>, A%d, M%d, ACAS, normal >( in, os )', 'VS', 'action-only'),
    'chactstd': ('change_action_and_state< NA2, VSD >::match< R<0>, A%d, M%d, ACASD, normal >( in, os )', 'VSD', 'action-only'),
    'chaction': ('change_action< NA >::match< R<0>, A%d, M%d, nothing, normal >( in )', None, None),
    'chcontrol': ('change_control< NC >::match< R<0>, A%d, M%d, nothing, normal >( in )', None, None),
    'enaction': ('enable_action::match< R<0>, A%d, M%d, nothing, normal >( in )', None, None),
    'disaction': ('disable_action::match< R<0>, A%d, M%d, nothing, normal >( in )', None, None),
}


def rname(op, a, m, tr):
    return '%s_A%dM%d_%s' % (op, a, m, 'e' if tr == 'eager' else 'l')


def tu_for(tracking):
    s = TU_PROLOGUE + TU_EXTRA
    for op, (expr, st, _) in OPS.items():
        for a, m in AM:
            extra = ', OS& os' if st else ''
            s += tu_root(rname(op, a, m, tracking), INPUT_TYPES[(tracking, 'lf_crlf')], expr % (a, m), extra)
    return s


SUBGROUPS = {'state_e': lambda: tu_for('eager'), 'state_l': lambda: tu_for('lazy')}

PRE = '''
enum { S_NONE, S_LIVE, S_SUCC, S_DEAD };
int g_s; const void* g_state_addr; const void* g_os; size_t g_succ_off; int g_nctor, g_nsucc, g_ndtor;
'''


def ctor_stub(with_args):
    c = Contract(R('g_s == S_NONE && vf_exc.pending == 0' + (' && (const void*)_p1 == g_os' if with_args else ''), 'state-constructed-once-with-outer-states', ('C13',)),
                 Clause('assigns', 'g_s, g_state_addr, g_nctor'),
                 E('g_s == S_LIVE && g_state_addr == (const void*)self && g_nctor == OLD(g_nctor) + 1', 'stub'))
    return c


def success_stub():
    return Contract(R('__CPROVER_r_ok(_p0, sizeof(*_p0)) && g_s == S_LIVE && (const void*)self == g_state_addr && (const void*)_p1 == g_os && g_called[0] && g_ok[0] && vf_exc.pending == 0',
                      'state-success-only-after-match-on-that-object-with-outer-states', ('C13',)),
                    Clause('assigns', 'g_s, g_succ_off, g_nsucc'),
                    E('g_s == S_SUCC && g_succ_off == OFF(CUR(_p0)) && g_nsucc == OLD(g_nsucc) + 1', 'stub'))


def dtor_stub():
    return Contract(R('(g_s == S_LIVE || g_s == S_SUCC) && (const void*)self == g_state_addr', 'state-destroyed-once', ('C13',)),
                    Clause('assigns', 'g_s, g_ndtor'),
                    E('g_s == S_DEAD && g_ndtor == OLD(g_ndtor) + 1', 'stub'))


def rule_stub_state(a, m, action=None, control=None, with_state=True):
    d = dict(A=str(a), M=str(m), next_ok='T_NONE', next_fail='T_NONE')
    if action:
        d['action'] = action
    if control:
        d['control'] = control
    base = rule_stub({0: d})

    def mk(fi):
        c = base(fi)
        if with_state:
            names = [p['name'] for p in fi.get('params', [])]
            if len(names) != 2:
                c.clauses.insert(1, R('0', 'rule-receives-exactly-the-new-state', ('C13',)))
            else:
                c.clauses.insert(1, R('g_s == S_LIVE && (const void*)%s == g_state_addr' % names[1], 'rule-receives-exactly-the-new-state', ('C13',)))
        return c
    return mk


def jobs(tier):
    out = []
    TR = traits_of(NAME, {op: OPS[op][0].split('::match<')[0] for op in ('state', 'stated')}, decls=TU_EXTRA)
    for tr in ('eager', 'lazy'):
        for op, (expr, st, mode) in OPS.items():
            for a, m in AM:
                if tr == 'lazy' and tier != 'thorough' and not (a == 1 and m == 0 and op in ('state', 'chstate')):
                    continue
                P = ('C13',)
                stubs = []
                con = Contract(comb_requires(), None)
                asg = 'IT_FIELDS(in), g_turn, g_pos, g_done, g_iter, g_last, g_called, g_ok, g_len, g_ncalls, g_ae, g_re, g_lp, g_cur, vf_exc, vf_exc_counter, g_exc_obj, g_exc_type'
                if st:
                    con.add(R('g_s == S_NONE && g_nctor == 0 && g_nsucc == 0 && g_ndtor == 0 && g_os == (const void*)st', 'state-pre'))
                    asg += ', g_s, g_state_addr, g_succ_off, g_nctor, g_nsucc, g_ndtor'
                con.add(Clause('assigns', asg))
                for c in comb_common(m):
                    con.add(c)
                con.add(E('!vf_exc.pending ==> (g_called[0] && g_ncalls[0] == 1 && RET == g_ok[0] && (RET ==> CONSUMED(in) == g_len[0]))', 'SWITCH-IS-TRANSPARENT-FOR-RESULT-AND-CURSOR', P))
                if st:
                    act = {'chstate': 'vf::ACS', 'nchstate': 'vf::ACS', 'chstated': 'vf::ACSD', 'chactst': 'vf::NA2', 'chactstd': 'vf::NA2'}.get(op)
                    stubs.append((r'^bool vf::R<\d+>::match<', rule_stub_state(a, m, action=act)))
                    opt_ = ('opt',) if op == 'nchstate' else ()     # via normal<>::match: should the dispatch be skipped the state is never built; the life-cycle clauses report it
                    stubs.append((r'vf::%s::%s[<(]' % (st, st), ctor_stub(st == 'VS')) + opt_)
                    stubs.append((r'vf::%s::~%s\(' % (st, st), dtor_stub()) + opt_)
                    stubs.append((r'vf::%s::success<' % st, success_stub(), 'opt'))     # not called at all when actions are disabled (change_state)
                    want_succ = 'g_ok[0]' if mode is None else ('(g_ok[0] && %d)' % a)
                    con.add(E('g_nctor == 1 && g_ndtor == 1 && g_s == S_DEAD', 'STATE-LIVES-EXACTLY-FOR-THE-ATTEMPT', P))
                    con.add(E('!vf_exc.pending ==> g_nsucc == (%s ? 1 : 0)' % want_succ, 'STATE-SUCCESS-ONCE-IFF-MATCHED', P))
                    con.add(E('vf_exc.pending ==> g_nsucc == 0', 'STATE-NO-SUCCESS-ON-GLOBAL-FAILURE', P))
                    con.add(E('g_nsucc == 1 ==> g_succ_off == g_e_off + g_len[0]', 'STATE-SUCCESS-SEES-CURSOR-AFTER-MATCH', P))
                else:
                    exp = {'chaction': dict(A=a, action='vf::NA', control='tao::pegtl::normal'),
                           'chcontrol': dict(A=a, action='tao::pegtl::nothing', control='vf::NC'),
                           'enaction': dict(A=1, action='tao::pegtl::nothing', control='tao::pegtl::normal'),
                           'disaction': dict(A=0, action='tao::pegtl::nothing', control='tao::pegtl::normal')}[op]
                    stubs.append((r'^bool vf::R<\d+>::match<', rule_stub_state(exp['A'], m, exp['action'], exp['control'], with_state=False)))
                for c in (c11_premises(TR[op], 1) if op in TR else []):   # state<> is a rule with traits; the change_* classes are action mixins
                    con.add(c)
                con.add(E('vf_canary', 'canary_exit'))
                h = comb_harness('vf_' + INPUT_TYPES[(tr, 'lf_crlf')], tr, 'w_ret = $ENTRY(&in%s)' % (', &os' if st else ''))
                h = h.replace('vf_exc.pending = 0;', 'vf_exc.pending = 0; vf_exc.obj = 0;' + (' g_s = S_NONE; g_nctor = g_nsucc = g_ndtor = 0; g_os = &os;' if st else ''))
                if st:
                    h = h.replace('int main(void)\n{', 'int main(void)\n{\n  struct $REC{vf::OS} os;')
                j = Job(rname(op, a, m, tr), 'state_e' if tr == 'eager' else 'state_l', rname(op, a, m, tr), con, ('C13', 'C02', 'C04') + (('C11',) if op in TR else ()),
                        stubs=stubs, prelude=comb_prelude(tr) + PRE, harness=h, expect_fail_canary=('canary_exit',),
                        desc=(expr % (a, m)) + ' on memory_input<%s>' % tr)
                out.append(j)
    return out
