"""group `exc`: global failure (C05): must, if_must (both defaults), raise, try_catch_return_false,
try_catch_raise_nested on the real bodies with the real normal<Rule>::raise; exceptions are the
single-phase pending flag of the lowering (DESIGN.md 3.4)."""
from vfcore import R, E, A, Contract, Job
from common import *

NAME = 'exc'
ASSUMPTIONS = [
    'parse_error construction (message string, position object) is library/std::string code: modelled by the throw stub that records type, throwing function (site), and the position fields of the input argument',
    'what() == "source:line:column: message" is std::string concatenation: not verified',
    'catch(const E&) matches by the static subtype table of the thrown type id (DESIGN.md 3.4); foreign exceptions are the oracle stub raising an arbitrary type id',
]

TU_EXTRA = r'''
namespace vf {
struct E0 {};                      // an opaque user exception type
template< int I > struct RM : R< I > { static constexpr const char* error_message = "custom"; };   // rule with a custom error message
// must_if<> error tables: message present / absent, raise_on_failure absent / contradicting the message default
struct EM   { template< typename > static constexpr const char* message = "m"; };
struct EN   { template< typename > static constexpr const char* message = nullptr; };
struct EMF  { template< typename > static constexpr const char* message = "m";     template< typename > static constexpr bool raise_on_failure = false; };
struct ENT  { template< typename > static constexpr const char* message = nullptr; template< typename > static constexpr bool raise_on_failure = true; };
template< typename Rule > using CEM  = must_if< EM >::control< Rule >;
template< typename Rule > using CEN  = must_if< EN, normal, false >::control< Rule >;
template< typename Rule > using CEMF = must_if< EMF >::control< Rule >;
template< typename Rule > using CENT = must_if< ENT, normal, false >::control< Rule >;
}
'''
AM = [(a, m) for a in (0, 1) for m in (0, 1)]
OPS = {
    'must': 'internal::must< R<0> >',
    'mustmsg': 'internal::must< RM<0> >',
    'raise': 'internal::raise< R<0> >',
    'ifmust': 'internal::if_must< false, R<0>, R<1> >',
    'optmust': 'internal::if_must< true, R<0>, R<1> >',
    'tcrf_pe': 'internal::try_catch_return_false< parse_error, R<0> >',
    'tcrf_e0': 'internal::try_catch_return_false< E0, R<0> >',
    'tcrf_any': 'internal::try_catch_return_false< void, R<0> >',
    'tcrn_pe': 'internal::try_catch_raise_nested< parse_error, R<0> >',
    'tcrn_any': 'internal::try_catch_raise_nested< void, R<0> >',
    'tcrnm_pe': 'internal::try_catch_raise_nested< parse_error, RM<0> >',     # guarded rule with its own error_message
}


# must_if<Errors>::control as the control of the real match(): a local failure of the rule becomes a global one exactly when
# Errors::raise_on_failure<Rule> says so, or, without that member, when Errors::message<Rule> is not null (doc/Errors-and-Exceptions.md)
MI_OPS = {'mi_msg': ('CEM', True, 'must_if<vf::EM'), 'mi_nomsg': ('CEN', False, None), 'mi_msg_norof': ('CEMF', False, None), 'mi_nomsg_rof': ('CENT', True, r'normal<vf::R<0> >::raise<')}


def rname(op, a, m, tr):
    return '%s_A%dM%d_%s' % (op, a, m, 'e' if tr == 'eager' else 'l')


def all_roots():
    return [(op, a, m, tr) for op in OPS for a, m in AM for tr in ('eager', 'lazy')]


def tu():
    s = TU_PROLOGUE + TU_EXTRA
    for op, a, m, tr in all_roots():
        s += tu_root(rname(op, a, m, tr), INPUT_TYPES[(tr, 'lf_crlf')], '%s::match< A%d, M%d, nothing, normal >( in )' % (OPS[op], a, m))
    for op, (ctl, _, _) in MI_OPS.items():
        for a, m in AM:
            for tr in ('eager', 'lazy'):
                s += tu_root(rname(op, a, m, tr), INPUT_TYPES[(tr, 'lf_crlf')], 'tao::pegtl::match< R<0>, A%d, M%d, nothing, %s >( in )' % (a, m, ctl))
    return s


def exc_prelude(tr):
    p = comb_prelude(tr)
    if tr == 'eager':
        p += '''
#define REC_POS_IN(in_) do { vf_exc.in = (in_); vf_exc.off = OFF(CUR(in_)); vf_exc.byte = BYTE(in_); vf_exc.line = LINE(in_); vf_exc.column = COL(in_); } while (0)
#define EXC_POS_IS_CURSOR(in) (vf_exc.off == OFF(CUR(in)) && vf_exc.byte == BYTE(in) && vf_exc.line == LINE(in) && vf_exc.column == COL(in))
#define REC_POS_POS(p_) do { vf_exc.in = 0; vf_exc.byte = (p_)->byte; vf_exc.line = (p_)->line; vf_exc.column = (p_)->column; } while (0)
#define EXC_POS_IS_ENTRY (vf_exc.byte == g_e_byte && vf_exc.line == g_e_line && vf_exc.column == g_e_col)
'''
    else:
        p += '''
#define REC_POS_IN(in_) do { vf_exc.in = (in_); vf_exc.off = OFF(CUR(in_)); } while (0)
#define EXC_POS_IS_CURSOR(in) (vf_exc.off == OFF(CUR(in)))
#define REC_POS_POS(p_) do { vf_exc.in = 0; vf_exc.byte = (p_)->byte; } while (0)
#define EXC_POS_IS_ENTRY (vf_exc.byte == g_begin_byte + g_e_off)
size_t g_begin_byte;
'''
    p += '''
#define VF_ON_THROW_parse_error_template_in(a0) REC_POS_IN(a0)
#define VF_ON_THROW_parse_error_template_str_in(a0, a1) REC_POS_IN(a1)
#define VF_ON_THROW_parse_error_template_pos(a0) REC_POS_POS(a0)
#define VF_ON_THROW_parse_error_template_str_pos(a0, a1) REC_POS_POS(a1)
#define STUB_RAISED (g_exc_obj != 0)
'''
    return p


PE = '$EXC{tao::pegtl::parse_error_template}'


def spec_for(op, a, m):
    P = ('C05',)
    A_ = str(a)
    own = lambda site: ('(vf_exc.pending && vf_exc.type == %s && vf_exc.site == $SITE{%s} && vf_exc.obj != g_exc_obj'
                        ' && EXC_POS_IS_CURSOR(in) && OFF(CUR(in)) >= g_e_off)' % (PE, site))
    if op in ('must', 'mustmsg'):
        rule = 'vf::R<0>' if op == 'must' else 'vf::RM<0>'
        spec = {0: dict(A=A_, next_ok='T_NONE', next_fail='T_NONE')}
        post = [E('(g_called[0] && g_ok[0] && !STUB_RAISED) ==> (!vf_exc.pending && RET == 1 && CONSUMED(in) == g_len[0])', 'MUST-PASSES-SUCCESS', P),
                E('(g_called[0] && !g_ok[0] && !STUB_RAISED) ==> %s' % own(r'normal<%s >::raise<' % rule), 'MUST-RAISES-FOR-ITS-RULE-AT-FAILURE-POSITION', P),
                E('g_called[0]', 'MUST-CALLS-RULE', P)]
        return rule_stub(spec) if op == 'must' else rule_stub_rm(spec), post
    if op == 'raise':
        spec = {}
        post = [E(own(r'normal<vf::R<0> >::raise<') + ' && ITER_UNCHANGED(in)', 'RAISE-ALWAYS-RAISES', P)]
        return rule_stub(spec), post
    if op in ('ifmust', 'optmust'):
        dflt = '0' if op == 'ifmust' else '1'
        spec = {0: dict(A=A_, next_ok='1', next_fail='T_NONE'), 1: dict(A=A_, next_ok='T_NONE', next_fail='T_NONE')}
        post = [E('(!STUB_RAISED && g_called[0] && !g_ok[0]) ==> (!vf_exc.pending && RET == %s && !g_called[1])' % dflt, 'IFMUST-COND-FAILS-DEFAULT', ('C05', 'C09')),
                E('(!STUB_RAISED && g_ok[0] && g_called[1] && g_ok[1]) ==> (!vf_exc.pending && RET == 1 && CONSUMED(in) == g_len[0] + g_len[1])', 'IFMUST-BOTH-MATCH', ('C05', 'C09')),
                E('(!STUB_RAISED && g_called[0] && g_ok[0]) ==> g_called[1]', 'IFMUST-THEN-IS-TRIED', ('C05', 'C09')),
                E('(!STUB_RAISED && g_ok[0] && g_called[1] && !g_ok[1]) ==> %s' % own(r'normal<vf::R<1> >::raise<'), 'IFMUST-RAISES-FOR-THE-FAILED-THEN-RULE', ('C05', 'C09'))]
        return rule_stub(spec), post
    if op.startswith('tcrf'):
        spec = {0: dict(A=A_, next_ok='T_NONE', next_fail='T_NONE')}
        match = {'tcrf_pe': 'vf_isa(g_exc_type, %s)' % PE, 'tcrf_e0': 'vf_isa(g_exc_type, $EXC{vf::E0})', 'tcrf_any': '1'}[op]
        post = [E('(STUB_RAISED && %s) ==> (!vf_exc.pending && RET == 0)' % match, 'TRYCATCH-CONVERTS-NAMED-EXCEPTIONS-TO-LOCAL-FAILURE', P),
                E('(STUB_RAISED && !(%s)) ==> (vf_exc.pending && vf_exc.obj == g_exc_obj && vf_exc.type == g_exc_type)' % match, 'TRYCATCH-PASSES-OTHER-EXCEPTIONS-UNCHANGED', P),
                E('!STUB_RAISED ==> (!vf_exc.pending && g_called[0] && RET == g_ok[0])', 'TRYCATCH-TRANSPARENT-WITHOUT-EXCEPTION', P)]
        return rule_stub(spec), post
    if op.startswith('tcrn'):
        spec = {0: dict(A=A_, next_ok='T_NONE', next_fail='T_NONE')}
        match = {'tcrn_pe': 'vf_isa(g_exc_type, %s)' % PE, 'tcrn_any': '1', 'tcrnm_pe': 'vf_isa(g_exc_type, %s)' % PE}[op]
        post = [E('(STUB_RAISED && %s) ==> (vf_exc.pending && vf_exc.type == %s && vf_exc.obj != g_exc_obj && vf_exc.nested_obj == g_exc_obj'
                  ' && vf_exc.site == $SITE{normal<vf::%s<0> >::raise_nested<} && EXC_POS_IS_ENTRY)' % (match, PE, 'RM' if op == 'tcrnm_pe' else 'R'),
                  'RAISE-NESTED-AT-START-OF-ATTEMPT-KEEPS-ORIGINAL-NESTED', P),
                E('(STUB_RAISED && !(%s)) ==> (vf_exc.pending && vf_exc.obj == g_exc_obj && vf_exc.type == g_exc_type)' % match, 'TRYCATCH-PASSES-OTHER-EXCEPTIONS-UNCHANGED', P),
                E('!STUB_RAISED ==> (!vf_exc.pending && g_called[0] && RET == g_ok[0])', 'TRYCATCH-TRANSPARENT-WITHOUT-EXCEPTION', P)]
        return (rule_stub_rm(spec) if op == 'tcrnm_pe' else rule_stub(spec)), post
    raise KeyError(op)


BUMP_LOOP = ('__CPROVER_assigns(i, iter->line, iter->column)\n'
             '__CPROVER_loop_invariant(i <= count && iter->line >= 1 && iter->column >= 1 && iter->line <= __CPROVER_loop_entry(iter->line) + i'
             ' && iter->column <= __CPROVER_loop_entry(iter->column) + i && iter->data == __CPROVER_loop_entry(iter->data) && iter->byte == __CPROVER_loop_entry(iter->byte))')


def rule_stub_rm(spec):
    """same oracle stub, for the rule type with a custom error message"""
    import re
    base = rule_stub(spec)

    def mk(fi):
        fi2 = dict(fi)
        fi2['pretty'] = fi['pretty'].replace('vf::RM<', 'vf::R<')
        return base(fi2)
    return mk


def jobs(tier):
    out = []
    TR = traits_of(NAME, OPS, decls=TU_EXTRA)
    for op, a, m, tr in all_roots():
        if tr == 'lazy' and tier != 'thorough' and not (a == 1 and m == 0):
            continue
        stub, post = spec_for(op, a, m)
        con = Contract(comb_requires(), Clause('assigns', 'IT_FIELDS(in), g_turn, g_pos, g_done, g_iter, g_last, g_called, g_ok, g_len, g_ncalls, g_ae, g_re, g_lp, g_cur, vf_exc, vf_exc_counter, g_exc_obj, g_exc_type'))
        con.add(E('VALID_POST(in)', 'RC-VALID', ('C02', 'C03')))
        con.add(E('MONO(in)', 'RC-MONO', ('C02',)))
        con.add(E('BOOL01(RET)', 'ret-bool'))
        con.add(E('(STUB_RAISED && vf_exc.pending && vf_exc.obj == g_exc_obj) ==> vf_exc.type == g_exc_type', 'EXC-UNCHANGED', ('C05',)))
        if m == 0 and not op.startswith('tcrn'):
            con.add(E('(!vf_exc.pending && !RET) ==> ITER_UNCHANGED(in)', 'RC-REWIND', ('C02', 'C05')))
        if op.startswith('tcrn'):
            con.add(E('(!vf_exc.pending && !RET) ==> ITER_UNCHANGED(in)', 'RC-REWIND', ('C02', 'C05')))
        for c in post:
            con.add(c)
        for c in c11_premises(TR[op], 0 if op == 'raise' else 2 if 'ifmust' in op or op == 'optmust' else 1):
            con.add(c)
        con.add(E('vf_canary', 'canary_exit'))
        j = Job(rname(op, a, m, tr), NAME, rname(op, a, m, tr), con, ('C05', 'C02', 'C11'),
                stubs=[(r'^bool vf::RM?<\d+>::match<', stub) + (('opt',) if op == 'raise' else ())], prelude=exc_prelude(tr),
                harness=comb_harness('vf_' + INPUT_TYPES[(tr, 'lf_crlf')], tr, 'w_ret = $ENTRY(&in)').replace('vf_exc.pending = 0;', 'vf_exc.pending = 0; vf_exc.obj = 0; __CPROVER_assume(vf_exc_counter < 1000);' + (' g_begin_byte = in._b0.m_begin.byte; __CPROVER_assume(in._b0.m_begin.byte < ((size_t)1<<62) && in._b0.m_begin.line >= 1 && in._b0.m_begin.line < ((size_t)1<<62) && in._b0.m_begin.column >= 1 && in._b0.m_begin.column < ((size_t)1<<62));' if tr == 'lazy' else '')),
                expect_fail_canary=('canary_exit',),
                loops=({(r'^tao::pegtl::internal::bump\(', 1): BUMP_LOOP} if (tr == 'lazy' and op.startswith('tcrn')) else {}),
                desc='%s apply_mode=%s rewind_mode=%s on memory_input<%s>, Control=normal (real raise), sub-rules = oracle stubs' % (
                    OPS[op], 'action' if a else 'nothing', 'optional' if m else 'required', tr))
        out.append(j)
    # ---- must_if
    P = ('C05',)
    for op, (ctl, raises, site) in MI_OPS.items():
        for a, m in AM:
            for tr in ('eager', 'lazy'):
                if tr == 'lazy' and tier != 'thorough' and not (a == 1 and m == 0):
                    continue
                con = Contract(comb_requires(), Clause('assigns', 'IT_FIELDS(in), g_turn, g_pos, g_done, g_iter, g_last, g_called, g_ok, g_len, g_ncalls, g_ae, g_re, g_lp, g_cur, vf_exc, vf_exc_counter, g_exc_obj, g_exc_type'))
                con.add(E('VALID_POST(in)', 'RC-VALID', ('C02', 'C03')))
                con.add(E('(STUB_RAISED && vf_exc.pending && vf_exc.obj == g_exc_obj) ==> vf_exc.type == g_exc_type', 'EXC-UNCHANGED', P))
                con.add(E('g_called[0]', 'MUSTIF-CALLS-RULE', P))
                con.add(E('(g_ok[0] && !STUB_RAISED) ==> (!vf_exc.pending && RET == 1 && CONSUMED(in) == g_len[0])', 'MUSTIF-PASSES-SUCCESS', P))
                if raises:
                    own = ('(vf_exc.pending && vf_exc.type == %s && vf_exc.site == $SITE{%s} && vf_exc.obj != g_exc_obj && EXC_POS_IS_CURSOR(in) && OFF(CUR(in)) >= g_e_off)' % (PE, site))
                    con.add(E('(!g_ok[0] && !STUB_RAISED) ==> %s' % own, 'MUSTIF-LOCAL-FAILURE-BECOMES-GLOBAL-WHEN-CONFIGURED', P))
                else:
                    con.add(E('(!g_ok[0] && !STUB_RAISED) ==> (!vf_exc.pending && RET == 0)', 'MUSTIF-LOCAL-FAILURE-STAYS-LOCAL-WHEN-CONFIGURED', P))
                con.add(E('vf_canary', 'canary_exit'))
                spec = {0: dict(A=str(a), next_ok='T_NONE', next_fail='T_NONE')}
                j = Job(rname(op, a, m, tr), NAME, rname(op, a, m, tr), con, ('C05', 'C02'),
                        stubs=[(r'^bool vf::RM?<\d+>::match<', rule_stub(spec))], prelude=exc_prelude(tr),
                        harness=comb_harness('vf_' + INPUT_TYPES[(tr, 'lf_crlf')], tr, 'w_ret = $ENTRY(&in)').replace('vf_exc.pending = 0;', 'vf_exc.pending = 0; vf_exc.obj = 0; __CPROVER_assume(vf_exc_counter < 1000);' + (' g_begin_byte = in._b0.m_begin.byte; __CPROVER_assume(in._b0.m_begin.byte < ((size_t)1<<62) && in._b0.m_begin.line >= 1 && in._b0.m_begin.line < ((size_t)1<<62) && in._b0.m_begin.column >= 1 && in._b0.m_begin.column < ((size_t)1<<62));' if tr == 'lazy' else '')),
                        expect_fail_canary=('canary_exit',),
                        desc='match< R<0>, %s, %s, nothing, must_if<...>::control > (%s) on memory_input<%s>' % ('action' if a else 'nothing', 'optional' if m else 'required', ctl, tr))
                out.append(j)
    return out
