"""group `comb2`: hand-written convenience combinators against K-contracts = the PEG evaluation of their
documented expansion (C09), with RC-REWIND / RC-MONO (C02), exception propagation (C05):
until<C>, until<C,R>, rep<N,R>, rep_opt<N,R>, rep_min_max<Min,Max,R>, if_then_else, strict, star_strict."""
from vfcore import R, E, A, Contract, Job, Clause
from common import *
import g_pos

NAME = 'comb2'
ASSUMPTIONS = [
    'K-contracts are transcribed by hand from doc/Rule-Reference.md (until<R,S...> = seq<star<not_at<R>,S...>,R>, rep_min_max = seq<rep<Min>,rep_opt<Max-Min>,not_at<R>>, strict<R,S...> = sor<not_at<R>,seq<R,S...>>, ...)',
    'where the documented expansion evaluates a sub-rule twice at one position (not_at<C> then C) the K-contract uses that rule\'s single outcome: valid for deterministic sub-rules',
]

AM = [(a, m) for a in (0, 1) for m in (0, 1)]

OPS = {
    'until1': 'internal::until< R<0> >',
    'until2': 'internal::until< R<0>, R<1> >',
    'rep3': 'internal::rep< 3, R<0> >',
    'rep1': 'internal::rep< 1, R<0> >',
    'rep42': 'internal::rep< 42, R<0> >',
    'repopt3': 'internal::rep_opt< 3, R<0> >',
    'repopt1': 'internal::rep_opt< 1, R<0> >',
    'rmm13': 'internal::rep_min_max< 1, 3, R<0> >',
    'rmm03': 'internal::rep_min_max< 0, 3, R<0> >',
    'rmm22': 'internal::rep_min_max< 2, 2, R<0> >',
    'ite': 'internal::if_then_else< R<0>, R<1>, R<2> >',
    'rematch1': 'internal::rematch< R<0> >',
    'rematch2': 'internal::rematch< R<0>, R<1> >',
    'rematch3': 'internal::rematch< R<0>, R<1>, R<2> >',
    'strict': 'internal::strict< R<0>, R<1> >',
    'starstrict': 'internal::star_strict< R<0>, R<1> >',
}
QUICK_LAZY = ()


def rname(op, a, m, tr):
    return '%s_A%dM%d_%s' % (op, a, m, 'e' if tr == 'eager' else 'l')


def all_roots():
    return [(op, a, m, tr) for op in OPS for a, m in AM for tr in ('eager', 'lazy')]


def tu():
    s = TU_PROLOGUE
    for op, a, m, tr in all_roots():
        s += tu_root(rname(op, a, m, tr), INPUT_TYPES[(tr, 'lf_crlf')], '%s::match< A%d, M%d, nothing, normal >( in )' % (OPS[op], a, m))
    return s


GH = 'g_turn, g_pos, g_done, g_iter, g_last, g_called[0], g_ok[0], g_len[0], g_ncalls[0], g_ae[0], g_re[0], g_lp[0], g_called[1], g_ok[1], g_len[1], g_ncalls[1], g_ae[1], g_re[1], g_lp[1], g_cur, vf_exc, vf_exc_counter, g_exc_obj, g_exc_type'


def loop_inv(turn, extra='', locals_assigned=''):
    return ('__CPROVER_assigns(IT_FIELDS(in), %s%s)\n'
            '__CPROVER_loop_invariant(VALID_STUB(in) && EXC_OK && g_done == 0 && g_turn == %s && OFF(CUR(in)) == g_pos'
            ' && IN_END(in) == __CPROVER_loop_entry(IN_END(in)) && IN_BEGIN(in) == __CPROVER_loop_entry(IN_BEGIN(in))'
            ' && OFF(CUR(in)) >= OFF(__CPROVER_loop_entry(CUR(in))) && OFF(CUR(in)) <= g_n %s)') % (GH, locals_assigned, turn, extra)


# C11 premise through a counted loop: once a consuming body has succeeded the cursor is strictly past the loop entry
C11_INV = '/*@IF C11@*/ && ((g_c[0] && g_iter > 0) ==> OFF(CUR(in)) > OFF(__CPROVER_loop_entry(CUR(in)))) && g_ncalls[0] == g_iter/*@FI@*/'


def spec_for(op, a, m, tq):
    """returns (stub spec or callable, post clauses, loops, ghost)"""
    P = ('C09',)
    A_ = str(a)
    if op == 'until2':
        spec = {0: dict(A=A_, M='0', next_ok='T_NONE', next_fail='1', pos_fail='same'),
                1: dict(A=A_, next_ok='0', next_fail='T_NONE')}
        post = [E('!vf_exc.pending ==> (RET == (g_last == 0 && g_ok[0]))', 'UNTIL-ENDS-WITH-COND', P),
                E('(!vf_exc.pending && !RET) ==> (g_last == 1 && !g_ok[1])', 'UNTIL-FAILS-ONLY-WHEN-BODY-FAILS', P),
                E('(!vf_exc.pending && RET) ==> OFF(CUR(in)) == g_pos', 'UNTIL-CONSUMED', P)]
        loops = {(r'internal::until<.*>::match<', 1): loop_inv('0', c11_loop_inv(tq, 2))}
        return rule_stub(spec), post, loops, {}
    if op == 'until1':
        spec = {0: dict(A=A_, M='0', next_ok='T_NONE', next_fail='0', pos_fail='same')}
        post = [E('!vf_exc.pending ==> (RET == (g_last == 0 && g_ok[0]))', 'UNTIL-ENDS-WITH-COND', P),
                E('(!vf_exc.pending && !RET) ==> (g_pos == g_n && g_called[0] && !g_ok[0])', 'UNTIL-FAILS-ONLY-AT-END-OF-INPUT', P),
                E('(!vf_exc.pending && RET) ==> OFF(CUR(in)) == g_pos', 'UNTIL-CONSUMED', P)]
        loops = {(r'internal::until<.*>::match<', 1): loop_inv('0', '&& CNT_LOOP_OK(in)' + c11_loop_inv(tq, 1))}
        ghost = {(r'internal::until<.*>::match<', 1): '{ g_pos = g_pos + 1; }'}   # any: one byte further
        return rule_stub(spec), post, loops, ghost
    if op.startswith('repopt'):
        n = int(op[6:])
        spec = {0: dict(A=A_, M='0', next_ok='0', next_fail='T_NONE', done_on_fail=True, pos_fail='same',
                        requires=[R('g_iter < %d' % n, 'stub-at-most-Max-calls', P)])}
        post = [E('!vf_exc.pending ==> (RET == 1 && (g_done == 1 || g_iter == %d) && OFF(CUR(in)) == g_pos)' % n, 'REPOPT-GREEDY-UP-TO-MAX', P)]
        loops = {(r'internal::rep_opt<.*>::match<', 1): loop_inv('0', '&& i == g_iter && i <= %d /*@IF C11@*/&& g_ncalls[0] == g_iter/*@FI@*/' % n, ', i')}
        return rule_stub(spec), post, loops, {}
    if op.startswith('rep') and not op.startswith('repopt'):
        n = int(op[3:])
        spec = {0: dict(A=A_, next_ok='0', next_fail='T_NONE', done_on_fail=True,
                        requires=[R('g_iter < %d' % n, 'stub-exactly-Cnt-calls', P)])}
        post = [E('!vf_exc.pending ==> (RET == (g_iter == %d && g_done == 0))' % n, 'REP-EXACTLY-CNT', P),
                E('(!vf_exc.pending && !RET) ==> g_done == 1', 'REP-FAILS-ONLY-WHEN-BODY-FAILS', P),
                E('(!vf_exc.pending && RET) ==> OFF(CUR(in)) == g_pos', 'REP-CONSUMED', P)]
        loops = {(r'internal::rep<.*>::match<', 1): loop_inv('0', '&& i == g_iter && i <= %d' % n + C11_INV, ', i')}
        return rule_stub(spec), post, loops, {}
    if op.startswith('rmm'):
        mn, mx = int(op[3]), int(op[4])
        base = rule_stub({0: dict(A=None, next_ok='0', next_fail='T_NONE', done_on_fail=True, pos_fail='same')})

        def mk(fi):
            c = base(fi)
            i, sa, sm = parse_stub(fi)
            # phase is determined by the number of successful iterations so far
            c.clauses.insert(1, R('(g_iter < %d ==> %d == %s) && (g_iter >= %d ==> %d == 0)' % (mx, sa, A_, mx, sa), 'stub-apply-mode', ('C04', 'C09')))
            c.clauses.insert(2, R('g_iter <= %d' % mx, 'stub-at-most-Max-plus-lookahead', P))
            c.clauses.insert(3, R('(g_iter >= %d && g_iter < %d) ==> %d == 0' % (mn, mx, sm), 'stub-rewind-mode', ('C02', 'C09')))
            return c
        post = [E('!vf_exc.pending ==> (RET == (g_iter >= %d && g_iter <= %d && g_done == 1))' % (mn, mx), 'RMM-BETWEEN-MIN-AND-MAX-THEN-NOT-AT', P),
                E('(!vf_exc.pending && RET) ==> OFF(CUR(in)) == g_pos', 'RMM-CONSUMED', P)]
        loops = {}
        fn = r'internal::rep_min_max<.*>::match<'
        loops[(fn, 1)] = loop_inv('0', '&& i == g_iter && i <= %d' % mn + C11_INV, ', i')
        loops[(fn, 2)] = loop_inv('0', '&& i_2 == g_iter && i_2 >= %d && i_2 <= %d /*@IF C11@*/&& g_ncalls[0] == g_iter/*@FI@*/' % (mn, mx), ', i_2')
        return mk, post, loops, {}
    if op == 'ite':
        spec = {0: dict(A=A_, M='0', next_ok='1', next_fail='2', pos_fail='same'),
                1: dict(A=A_, next_ok='T_NONE', next_fail='T_NONE'),
                2: dict(A=A_, next_ok='T_NONE', next_fail='T_NONE')}
        post = [E('!vf_exc.pending ==> (g_called[0] && RET == (g_ok[0] ? (g_called[1] && g_ok[1]) : (g_called[2] && g_ok[2])))', 'ITE-IS-SOR-SEQ-C-T-SEQ-NOTAT-C-E', P),
                E('(!vf_exc.pending && RET) ==> CONSUMED(in) == (g_ok[0] ? g_len[0] + g_len[1] : g_len[2])', 'ITE-CONSUMED', P)]
        return rule_stub(spec), post, {}, {}
    if op.startswith('rematch'):
        n = int(op[7:]) - 1          # number of rules re-matched on the head's match
        spec = {0: dict(A=A_, next_ok='1' if n else 'T_NONE', next_fail='T_NONE')}
        head = rule_stub(spec)

        def mk(fi, n=n):
            ps = parse_stub(fi)
            if ps is None:
                return None
            i, sa, sm = ps
            if i == 0:
                return head(fi)
            if i > n:
                return Contract(R('0', 'stub-unexpected-subrule', P), A('IT_FIELDS(in)'))
            c = Contract()
            sub = ('__CPROVER_r_ok(in, sizeof(*(in))) && EXC_OK && g_turn == %d && g_done == 0 && __CPROVER_same_object(IN_BEGIN(in), g_buf) && OFF(IN_BEGIN(in)) == g_e_off'
                   ' && __CPROVER_same_object(IN_END(in), g_buf) && OFF(IN_END(in)) == g_e_off + g_len[0] && __CPROVER_same_object(CUR(in), g_buf) && OFF(CUR(in)) == g_e_off && OFF(g_buf) == 0' % i)
            c.add(R(sub, 'rematch-subrule-sees-exactly-the-bytes-the-head-matched-from-their-start', P))
            c.add(R('REMATCH_SUB_COUNTERS(in)', 'rematch-subinput-positions-continue-the-outer-input', ('C06',)))
            c.add(R('%d == %s' % (sa, A_), 'stub-apply-mode', ('C04', 'C09')))
            c.add(A('IT_FIELDS(in), g_turn, g_last, g_called[%d], g_ok[%d], g_len[%d], g_ncalls[%d], g_ae[%d], g_re[%d], g_lp[%d], vf_exc, vf_exc_counter, g_exc_obj, g_exc_type' % ((i,) * 7)))
            c.add(E('__CPROVER_pointer_in_range_dfcc(IN_BEGIN(in), CUR(in), IN_END(in))', 'stub'))
            c.add(E('BOOL01(RET) && BOOL01(g_ok[%d]) && BOOL01(vf_exc.pending) && IN_END(in)==OLD(IN_END(in)) && IN_BEGIN(in)==OLD(IN_BEGIN(in)) && CNT_POS(in) && CNT_LT63(in)' % i, 'stub'))
            c.add(E('g_called[%d] == 1 && g_ncalls[%d] == SATINC(OLD(g_ncalls[%d])) && g_last == %d' % (i, i, i, i), 'stub'))
            c.add(E('vf_exc.pending ==> (g_turn == T_NONE && vf_exc.obj == g_exc_obj && vf_exc.type == g_exc_type && g_exc_obj != 0'
                    ' && vf_exc.obj == OLD(vf_exc_counter) + 1 && vf_exc_counter == vf_exc.obj && vf_exc.nested_obj == 0)', 'stub'))
            c.add(E('!vf_exc.pending ==> (g_exc_obj == OLD(g_exc_obj) && g_exc_type == OLD(g_exc_type) && vf_exc_counter == OLD(vf_exc_counter))', 'stub'))
            c.add(E('!vf_exc.pending ==> (RET == g_ok[%d] && g_turn == (g_ok[%d] ? %s : T_NONE) && g_len[%d] == OFF(CUR(in)) - g_e_off)' % (i, i, str(i + 1) if i < n else 'T_NONE', i), 'stub'))
            c.add(E('g_ae[%d] == 1 && g_re[%d] == OLD(g_re[%d]) && g_lp[%d] == g_e_off' % ((i,) * 4), 'stub'))
            return c
        allok = ' && '.join(['g_ok[0]'] + ['(g_called[%d] && g_ok[%d])' % (j, j) for j in range(1, n + 1)])
        post = [E('!vf_exc.pending ==> (g_called[0] && RET == (%s))' % allok, 'REMATCH-IS-HEAD-THEN-EVERY-RULE-ON-THE-HEADS-MATCH', P),
                E('(!vf_exc.pending && RET) ==> CONSUMED(in) == g_len[0]', 'REMATCH-CONSUMES-EXACTLY-THE-HEADS-MATCH', P)]
        if n:
            post.append(E('(!vf_exc.pending && !RET) ==> ITER_UNCHANGED(in)', 'REMATCH-RESTORES-THE-CURSOR-ON-FAILURE-WHATEVER-THE-MODE', ('C09', 'C02')))
        for j in range(1, n + 1):
            post.append(E('g_called[%d] ==> (%s)' % (j, ' && '.join(['g_ok[0]'] + ['g_ok[%d]' % q for q in range(1, j)])), 'REMATCH-RULE-ONLY-AFTER-ITS-PREDECESSORS-MATCHED', P))
        return mk, post, {}, {}
    if op == 'strict':
        spec = {0: dict(A=A_, M='0', next_ok='1', next_fail='T_NONE', pos_fail='same'),
                1: dict(A=A_, next_ok='T_NONE', next_fail='T_NONE')}
        post = [E('!vf_exc.pending ==> (g_called[0] && RET == (!g_ok[0] || (g_called[1] && g_ok[1])))', 'STRICT-IS-SOR-NOTAT-R-SEQ-R-S', P),
                E('(!vf_exc.pending && RET) ==> CONSUMED(in) == (g_ok[0] ? g_len[0] + g_len[1] : (size_t)0)', 'STRICT-CONSUMED', P)]
        return rule_stub(spec), post, {}, {}
    if op == 'starstrict':
        spec = {0: dict(A=A_, M='0', next_ok='1', next_fail='T_NONE', done_on_fail=True, pos_fail='same'),
                1: dict(A=A_, next_ok='0', next_fail='T_NONE')}
        post = [E('!vf_exc.pending ==> (RET == (g_last == 0 && !g_ok[0]))', 'STARSTRICT-ENDS-WHEN-HEAD-FAILS', P),
                E('(!vf_exc.pending && !RET) ==> (g_last == 1 && !g_ok[1])', 'STARSTRICT-FAILS-ONLY-WHEN-TAIL-FAILS', P),
                E('(!vf_exc.pending && RET) ==> OFF(CUR(in)) == g_pos', 'STARSTRICT-CONSUMED', P)]
        loops = {(r'internal::star_strict<.*>::match<', 1): loop_inv('0')}
        return rule_stub(spec), post, loops, {}
    raise KeyError(op)


# documented number of calls of the body for the counted repetitions (rep_min_max: Max calls and the not_at lookahead)
BOUND = {'rep3': 3, 'rep1': 1, 'rep42': 42, 'repopt3': 3, 'repopt1': 1, 'rmm13': 4, 'rmm03': 4, 'rmm22': 3}
NSUB = {'until1': 1, 'until2': 2, 'ite': 3, 'strict': 2, 'starstrict': 2, 'rematch1': 1, 'rematch2': 2, 'rematch3': 3}


# the sub-input of rematch must report the positions of the outer input: eager = the entry iterator's counters; lazy = a begin
# iterator whose byte offset continues the outer input's (g_ob_byte = byte of the outer begin iterator)
REMATCH_PRE = {'eager': '#define EOLCH_UNTIL \'\\n\'\n#define REMATCH_SUB_COUNTERS(in) (BYTE(in) == g_e_byte && LINE(in) == g_e_line && COL(in) == g_e_col)\nsize_t g_ob_byte;\n',
               'lazy': '#define EOLCH_UNTIL \'\\n\'\n#define REMATCH_SUB_COUNTERS(in) (INB(in).m_begin.byte == g_ob_byte + g_e_off)\nsize_t g_ob_byte;\n'}


def jobs(tier):
    out = []
    TR = traits_of(NAME, OPS)
    for op in OPS:
        NSUB.setdefault(op, 1)
    for op, a, m, tr in all_roots():
        if tr == 'lazy' and tier != 'thorough' and not (a == 1 and m == 0):
            continue
        if op in ('rep1', 'repopt1', 'rmm22') and tier != 'thorough' and not (a == 1):
            continue
        stub, post, loops, ghost = spec_for(op, a, m, TR[op])
        con = Contract(comb_requires(), comb_assigns())
        for c in comb_common(m):
            con.add(c)
        for c in post:
            con.add(c)
        for c in c11_premises(TR[op], NSUB[op], BOUND.get(op)):
            con.add(c)
        con.add(E('vf_canary', 'canary_exit'))
        stubs = [(r'^bool vf::R<\d+>::match<', stub)]
        if op == 'until1':
            # until< Cond > skips bytes it has not looked at: any of them may be a line ending, so only the line-counting bump()
            # keeps the eager position right (C06).  The other two primitives are position-correct only for bytes known not to be /
            # known to be the line ending: that is their precondition here (unprovable for an unexamined byte)
            def _pre(st_):
                if 'bump_in_this_line' in st_[0]:
                    return R('count == 1 && __CPROVER_r_ok(iter->data, 1) && *(iter->data) != EOLCH_UNTIL', 'until-skips-unexamined-bytes-with-the-line-counting-bump', ('C06', 'C09'))
                return R('count == 1 && __CPROVER_r_ok(iter->data, 1) && *(iter->data) == EOLCH_UNTIL', 'until-skips-unexamined-bytes-with-the-line-counting-bump', ('C06', 'C09'))
            stubs += [st_ if 'internal::bump\\(' in st_[0] else
                      (st_[0], Contract(*([_pre(st_)] + [c for c in st_[1].clauses if not (c.kind == 'requires')])), 'opt')
                      for st_ in g_pos.pos_stubs()]
        j = Job(rname(op, a, m, tr), NAME, rname(op, a, m, tr), con, ('C09', 'C02', 'C05', 'C11') + (('C06',) if op.startswith('rematch') else ()), stubs=stubs, loops=loops,
                prelude=comb_prelude(tr) + g_pos.PRE_STUB + REMATCH_PRE[tr],
                harness=comb_harness('vf_' + INPUT_TYPES[(tr, 'lf_crlf')], tr, 'w_ret = $ENTRY(&in)').replace(
                    '  SET_ENTRY(&in);', '  SET_ENTRY(&in);' + (' g_ob_byte = in._b0.m_begin.byte;' if tr == 'lazy' else ' g_ob_byte = 0;')),
                expect_fail_canary=('canary_exit',),
                desc='%s apply_mode=%s rewind_mode=%s on memory_input<%s>, sub-rules = oracle stubs' % (
                    OPS[op], 'action' if a else 'nothing', 'optional' if m else 'required', tr))
        j.ghost = ghost
        out.append(j)
    return out


def native_checks(tier):
    """alias-defined convenience rules: compared by the compiler with their documented expansions (type identity; exact, no bound on
    inputs — listed with the native stand-ins because it is not a CBMC obligation)"""
    return [dict(name='alias_identity', props=('C09',), src='bounded/alias_identity.cpp', args=[],
                 bound='type identity (std::is_same / is_base_of) of 31 alias-defined rules and contrib if_then chains with their documented expansions; exact for these rules, transcription of doc/Rule-Reference.md by hand')]
