"""group `leaf`: single-unit rules (character classes, encodings, binary units) on memory_input.
Serves C10 (accepted set / consumed length), C02(b) (peek before bump), C03 (no read outside the
window: CBMC pointer checks on the exact-size object), C06 (RC-POS), C11 (RC-PROGRESS)."""
from vfcore import R, E, A, Contract, Job
from common import *
import g_pos

NAME = 'leaf'
ASSUMPTIONS = ['documented byte sets of the ASCII/ABNF classes are transcribed by hand from doc/Rule-Reference.md and RFC 5234 into the job table of contracts/g_leaf.py']

# peek kind -> (length spec, value spec, value C type, max length)
PEEK = {
    'char': ('(AVAIL_OLD(in) >= 1 ? (size_t)1 : (size_t)0)', '((char)UOLD(in)[0])'),
    'utf8': ('utf8_spec_len(UOLD(in), AVAIL_OLD(in))', 'utf8_spec_cp(UOLD(in), AVAIL_OLD(in))'),
    'utf16be': ('utf16_spec_len(UOLD(in), AVAIL_OLD(in), 1)', 'utf16_spec_cp(UOLD(in), AVAIL_OLD(in), 1)'),
    'utf16le': ('utf16_spec_len(UOLD(in), AVAIL_OLD(in), 0)', 'utf16_spec_cp(UOLD(in), AVAIL_OLD(in), 0)'),
    'utf32be': ('utf32_spec_len(UOLD(in), AVAIL_OLD(in), 1)', 'vf_rd32(UOLD(in), 1)'),
    'utf32le': ('utf32_spec_len(UOLD(in), AVAIL_OLD(in), 0)', 'vf_rd32(UOLD(in), 0)'),
    'uint8': ('(AVAIL_OLD(in) >= 1 ? (size_t)1 : (size_t)0)', '((unsigned)UOLD(in)[0])'),
    'uint16be': ('(AVAIL_OLD(in) >= 2 ? (size_t)2 : (size_t)0)', 'vf_rd16(UOLD(in), 1)'),
    'uint16le': ('(AVAIL_OLD(in) >= 2 ? (size_t)2 : (size_t)0)', 'vf_rd16(UOLD(in), 0)'),
    'uint32be': ('(AVAIL_OLD(in) >= 4 ? (size_t)4 : (size_t)0)', 'vf_rd32(UOLD(in), 1)'),
    'uint32le': ('(AVAIL_OLD(in) >= 4 ? (size_t)4 : (size_t)0)', 'vf_rd32(UOLD(in), 0)'),
    'uint64be': ('(AVAIL_OLD(in) >= 8 ? (size_t)8 : (size_t)0)', 'vf_rd64(UOLD(in), 1)'),
    'uint64le': ('(AVAIL_OLD(in) >= 8 ? (size_t)8 : (size_t)0)', 'vf_rd64(UOLD(in), 0)'),
}

AZ = "(c>='a'&&c<='z')"
AZU = "(c>='A'&&c<='Z')"
D09 = "(c>='0'&&c<='9')"

# (job name, C++ rule, peek kind, documented set as a C predicate over the unit value `c`, tier)
RULES = [
    # ---- ascii.hpp, sets from doc/Rule-Reference.md
    ('ascii_alnum', 'ascii::alnum', 'char', '(%s||%s||%s)' % (AZ, AZU, D09), 'quick'),
    ('ascii_alpha', 'ascii::alpha', 'char', '(%s||%s)' % (AZ, AZU), 'quick'),
    ('ascii_any', 'ascii::any', 'char', '1', 'quick'),
    ('ascii_blank', 'ascii::blank', 'char', "(c==' '||c=='\\t')", 'quick'),
    ('ascii_digit', 'ascii::digit', 'char', D09, 'quick'),
    ('ascii_lower', 'ascii::lower', 'char', AZ, 'quick'),
    ('ascii_upper', 'ascii::upper', 'char', AZU, 'quick'),
    ('ascii_nul', 'ascii::nul', 'char', '(c==0)', 'quick'),
    ('ascii_odigit', 'ascii::odigit', 'char', "(c>='0'&&c<='7')", 'quick'),
    ('ascii_print', 'ascii::print', 'char', '(c>=32&&c<=126)', 'quick'),
    ('ascii_seven', 'ascii::seven', 'char', '(c>=0&&c<=127)', 'quick'),
    ('ascii_space', 'ascii::space', 'char', "(c==' '||c=='\\n'||c=='\\r'||c=='\\t'||c=='\\v'||c=='\\f')", 'quick'),
    ('ascii_xdigit', 'ascii::xdigit', 'char', "(%s||(c>='a'&&c<='f')||(c>='A'&&c<='F'))" % D09, 'quick'),
    ('ascii_identifier_first', 'ascii::identifier_first', 'char', "(%s||%s||c=='_')" % (AZ, AZU), 'quick'),
    ('ascii_identifier_other', 'ascii::identifier_other', 'char', "(%s||%s||%s||c=='_')" % (AZ, AZU, D09), 'quick'),
    ('ascii_one_abc', "ascii::one<'a','b','c'>", 'char', "(c=='a'||c=='b'||c=='c')", 'quick'),
    ('ascii_one_nl', "ascii::one<'\\n'>", 'char', "(c=='\\n')", 'quick'),
    ('ascii_not_one_ab', "ascii::not_one<'a','b'>", 'char', "!(c=='a'||c=='b')", 'quick'),
    ('ascii_not_one_nl', "ascii::not_one<'\\n'>", 'char', "!(c=='\\n')", 'quick'),
    ('ascii_range_dk', "ascii::range<'d','k'>", 'char', "(c>='d'&&c<='k')", 'quick'),
    ('ascii_range_all', "ascii::range<'\\x09','\\x7e'>", 'char', "(c>=9&&c<=126)", 'quick'),
    ('ascii_not_range_dk', "ascii::not_range<'d','k'>", 'char', "!(c>='d'&&c<='k')", 'quick'),
    ('ascii_ranges_mixed', "ascii::ranges<'a','f','0','3','x'>", 'char', "((c>='a'&&c<='f')||(c>='0'&&c<='3')||c=='x')", 'quick'),
    ('ascii_ranges_nl', "ascii::ranges<'\\x01','\\x20','A','Z'>", 'char', "((c>=1&&c<=32)||(c>='A'&&c<='Z'))", 'quick'),
    # ---- abnf.hpp, sets from RFC 5234 appendix B.1 (HEXDIG as documented by PEGTL: both cases)
    ('abnf_ALPHA', 'abnf::ALPHA', 'char', '(%s||%s)' % (AZ, AZU), 'thorough'),
    ('abnf_BIT', 'abnf::BIT', 'char', "(c=='0'||c=='1')", 'quick'),
    ('abnf_CHAR', 'abnf::CHAR', 'char', '(c>=1&&c<=127)', 'quick'),
    ('abnf_CR', 'abnf::CR', 'char', "(c==13)", 'quick'),
    ('abnf_CTL', 'abnf::CTL', 'char', '((c>=0&&c<=31)||c==127)', 'quick'),
    ('abnf_DIGIT', 'abnf::DIGIT', 'char', D09, 'thorough'),
    ('abnf_DQUOTE', 'abnf::DQUOTE', 'char', '(c==34)', 'quick'),
    ('abnf_HEXDIG', 'abnf::HEXDIG', 'char', "(%s||(c>='a'&&c<='f')||(c>='A'&&c<='F'))" % D09, 'thorough'),
    ('abnf_HTAB', 'abnf::HTAB', 'char', '(c==9)', 'quick'),
    ('abnf_LF', 'abnf::LF', 'char', '(c==10)', 'quick'),
    ('abnf_OCTET', 'abnf::OCTET', 'char', '1', 'thorough'),
    ('abnf_SP', 'abnf::SP', 'char', '(c==32)', 'quick'),
    ('abnf_VCHAR', 'abnf::VCHAR', 'char', '(c>=33&&c<=126)', 'quick'),
    ('abnf_WSP', 'abnf::WSP', 'char', '(c==32||c==9)', 'quick'),
    # ---- utf8.hpp
    ('utf8_any', 'utf8::any', 'utf8', '1', 'quick'),
    ('utf8_bom', 'utf8::bom', 'utf8', '(c==0xFEFFu)', 'quick'),
    ('utf8_one', 'utf8::one<0x41,0xE9,0x20AC,0x1F600>', 'utf8', '(c==0x41u||c==0xE9u||c==0x20ACu||c==0x1F600u)', 'quick'),
    ('utf8_one_nl', 'utf8::one<0x0A>', 'utf8', '(c==0x0Au)', 'quick'),
    ('utf8_not_one', 'utf8::not_one<0x41,0x20AC>', 'utf8', '!(c==0x41u||c==0x20ACu)', 'quick'),
    ('utf8_range', 'utf8::range<0x100,0x2000>', 'utf8', '(c>=0x100u&&c<=0x2000u)', 'quick'),
    ('utf8_range_low', 'utf8::range<0x00,0x7F>', 'utf8', '(c<=0x7Fu)', 'quick'),
    ('utf8_not_range', 'utf8::not_range<0x80,0xFFFF>', 'utf8', '!(c>=0x80u&&c<=0xFFFFu)', 'quick'),
    ('utf8_ranges', 'utf8::ranges<0x30,0x39,0x400,0x4FF,0x10000,0x10FFFF,0x5F>', 'utf8',
     '((c>=0x30u&&c<=0x39u)||(c>=0x400u&&c<=0x4FFu)||(c>=0x10000u&&c<=0x10FFFFu)||c==0x5Fu)', 'quick'),
    # ---- contrib/utf16.hpp, utf32.hpp
    ('utf16be_any', 'utf16_be::any', 'utf16be', '1', 'quick'),
    ('utf16le_any', 'utf16_le::any', 'utf16le', '1', 'quick'),
    ('utf16be_range', 'utf16_be::range<0x41,0x1F600>', 'utf16be', '(c>=0x41u&&c<=0x1F600u)', 'quick'),
    ('utf16le_one', 'utf16_le::one<0x20AC,0x1F600>', 'utf16le', '(c==0x20ACu||c==0x1F600u)', 'quick'),
    ('utf16le_not_one', 'utf16_le::not_one<0x0A>', 'utf16le', '!(c==0x0Au)', 'thorough'),
    ('utf32be_any', 'utf32_be::any', 'utf32be', '1', 'quick'),
    ('utf32le_any', 'utf32_le::any', 'utf32le', '1', 'quick'),
    ('utf32be_range', 'utf32_be::range<0x41,0x1F600>', 'utf32be', '(c>=0x41u&&c<=0x1F600u)', 'quick'),
    ('utf32le_not_range', 'utf32_le::not_range<0x41,0xFFFF>', 'utf32le', '!(c>=0x41u&&c<=0xFFFFu)', 'quick'),
    # ---- contrib/uint8/16/32/64.hpp (binary units, endian adjusted, optionally masked)
    ('uint8_any', 'uint8::any', 'uint8', '1', 'quick'),
    ('uint8_one', 'uint8::one<0x00,0x80,0xFF>', 'uint8', '(c==0u||c==0x80u||c==0xFFu)', 'quick'),
    ('uint8_range', 'uint8::range<0x7F,0xF0>', 'uint8', '(c>=0x7Fu&&c<=0xF0u)', 'quick'),
    ('uint8_mask_one', 'uint8::mask_one<0xF0,0x30>', 'uint8', '((c&0xF0u)==0x30u)', 'quick'),
    ('uint8_mask_range', 'uint8::mask_range<0x0F,0x03,0x0A>', 'uint8', '((c&0x0Fu)>=3u&&(c&0x0Fu)<=10u)', 'quick'),
    ('uint16be_any', 'uint16_be::any', 'uint16be', '1', 'quick'),
    ('uint16le_any', 'uint16_le::any', 'uint16le', '1', 'quick'),
    ('uint16be_one', 'uint16_be::one<0x0A0D,0xFFFE>', 'uint16be', '(c==0x0A0Du||c==0xFFFEu)', 'quick'),
    ('uint16le_range', 'uint16_le::range<0x0100,0xFF00>', 'uint16le', '(c>=0x100u&&c<=0xFF00u)', 'quick'),
    ('uint16be_mask_one', 'uint16_be::mask_one<0xFF00,0x1200>', 'uint16be', '((c&0xFF00u)==0x1200u)', 'quick'),
    ('uint32be_any', 'uint32_be::any', 'uint32be', '1', 'quick'),
    ('uint32le_any', 'uint32_le::any', 'uint32le', '1', 'quick'),
    ('uint32be_one', 'uint32_be::one<0x0A0B0C0D,0x80000000>', 'uint32be', '(c==0x0A0B0C0Du||c==0x80000000u)', 'quick'),
    ('uint32le_range', 'uint32_le::range<0x01000000,0xFEFFFFFF>', 'uint32le', '(c>=0x01000000u&&c<=0xFEFFFFFFu)', 'quick'),
    ('uint32le_mask_range', 'uint32_le::mask_range<0x00FFFF00,0x00010000,0x00FF0000>', 'uint32le',
     '((c&0x00FFFF00u)>=0x00010000u&&(c&0x00FFFF00u)<=0x00FF0000u)', 'quick'),
    ('uint64be_any', 'uint64_be::any', 'uint64be', '1', 'quick'),
    ('uint64le_any', 'uint64_le::any', 'uint64le', '1', 'quick'),
    ('uint64be_one', 'uint64_be::one<0x0102030405060708,0x8000000000000000>', 'uint64be',
     '(c==0x0102030405060708ul||c==0x8000000000000000ul)', 'quick'),
    ('uint64le_range', 'uint64_le::range<0x0100000000000000,0xFEFFFFFFFFFFFFFF>', 'uint64le',
     '(c>=0x0100000000000000ul&&c<=0xFEFFFFFFFFFFFFFFul)', 'quick'),
    ('uint64le_mask_not_one', 'uint64_le::mask_not_one<0xFF000000000000FF,0x1200000000000034>', 'uint64le',
     '!((c&0xFF000000000000FFul)==0x1200000000000034ul)', 'quick'),
    # ---- single-element specialisations range< R, Peek, C, C > (both polarities) and contrib/predicates.hpp
    ('ascii_range_xx', "ascii::range<'x','x'>", 'char', "(c=='x')", 'quick'),
    ('ascii_not_range_xx', "ascii::not_range<'x','x'>", 'char', "!(c=='x')", 'quick'),
    ('utf8_not_range_1', 'utf8::not_range<0x20AC,0x20AC>', 'utf8', '!(c==0x20ACu)', 'quick'),
    ('uint8_mask_not_range_1', 'uint8::mask_not_range<0xF0,0x40,0x40>', 'uint8', '!((c&0xF0u)==0x40u)', 'quick'),
    ('pred_not_one', "ascii::predicate_not< ascii::one<'\"'> >", 'char', "!(c=='\"')", 'quick'),
    ('pred_and_nots', "ascii::predicates_and< ascii::not_one<'a'>, ascii::not_range<'0','9'> >", 'char', "(!(c=='a')&&!(c>='0'&&c<='9'))", 'quick'),
    ('pred_or', "ascii::predicates_or< ascii::one<'a'>, ascii::range<'0','9'> >", 'char', "(c=='a'||(c>='0'&&c<='9'))", 'quick'),
    ('pred_utf8_not', "utf8::predicate_not< utf8::range<0x80,0x7FF> >", 'utf8', "!(c>=0x80u&&c<=0x7FFu)", 'quick'),
]

TRACKINGS = [('eager', 'e'), ('lazy', 'l')]


def tu():
    s = TU_PROLOGUE.replace('namespace vf', '#include <tao/pegtl/contrib/predicates.hpp>\nnamespace vf', 1)
    for name, rule, pk, setx, tier in RULES:
        for tr, sfx in TRACKINGS:
            s += tu_root('%s_%s' % (name, sfx), INPUT_TYPES[(tr, 'lf_crlf')], '%s::match(in)' % rule)
    return s


def ctype_of(pk):
    if pk == 'char':
        return 'char'
    if pk.startswith('uint64'):
        return 'unsigned long'
    return 'unsigned'


def jobs(tier):
    out = []
    TR = traits_of(NAME, {name: rule for name, rule, pk, setx, jt in RULES}, includes=('tao/pegtl/contrib/predicates.hpp',))
    for name, rule, pk, setx, jt in RULES:
        if jt == 'thorough' and tier != 'thorough':
            continue
        ln, cp = PEEK[pk]
        always = setx == '1'
        for tr, sfx in TRACKINGS:
            defs = 'static inline _Bool vf_in_set(%s c) { return %s; }\n' % (ctype_of(pk), setx)
            pre = prelude(tr) + defs
            extra = [
                E('RET == (%s > 0 && vf_in_set(%s))' % (ln, cp), 'UNIT-ACCEPT', ('C10',)),
                E('RET ==> CONSUMED(in) == %s' % ln, 'UNIT-LEN', ('C10',)),
            ]
            con = rc_leaf(tr, 'lf_crlf', progress=True, extra=extra + c11_leaf(TR[name]), pos=pk in ('char', 'utf8', 'uint8'))
            out.append(Job(
                name='%s_%s' % (name, sfx), group=NAME, root='%s_%s' % (name, sfx), contract=con,
                props=('C10', 'C02', 'C03', 'C06', 'C11'), prelude=pre + g_pos.PRE_STUB, stubs=g_pos.pos_stubs(),
                harness=input_harness('vf_' + INPUT_TYPES[(tr, 'lf_crlf')], tr, 'w_ret = $ENTRY(&in)'),
                expect_fail_canary=canaries(), desc='%s::match on memory_input<%s>' % (rule, tr),
                replay={'kind': 'leaf', 'tracking': tr, 'eol': 'lf_crlf', 'defs': defs}))
    return out
