"""group `int`: contrib/integer.hpp (C15; also C02(b), C03, C06, C11 on the scanning rules).
Spec: decimal digit strings evaluated by Horner's rule in unsigned __int128 (ghost fold with its
own index); the numeral syntax 0 | [1-9][0-9]* stated with a ghost probe index instead of forall."""
from vfcore import R, E, A, Contract, Job
from common import *

NAME = 'int'
ASSUMPTIONS = [
    'the ghost Horner value (unsigned __int128, own index over the digit string) is the definition of the mathematical value of a numeral',
    'ghost probe index g_k is an unconstrained symbolic index: a clause proved for it holds for every index (replaces forall)',
]

# (key, C++ type, C type, is_signed, max as C literal)
TYPES = [('u8', 'std::uint8_t', 'unsigned char', 0, '255'), ('u16', 'std::uint16_t', 'unsigned short', 0, '65535'),
         ('u32', 'std::uint32_t', 'unsigned int', 0, '4294967295U'), ('u64', 'std::uint64_t', 'unsigned long', 0, '18446744073709551615UL'),
         ('i8', 'std::int8_t', 'signed char', 1, '127'), ('i16', 'std::int16_t', 'short', 1, '32767'),
         ('i32', 'std::int32_t', 'int', 1, '2147483647'), ('i64', 'std::int64_t', 'long', 1, '9223372036854775807L')]
# explicit maxima (unsigned types): boundary set
MAXIMA = {'u8': ['255', '100', '99', '10', '9', '1'], 'u16': ['65535', '9999', '1000', '256'],
          'u32': ['4294967295', '4294967290', '1000000000', '999999999'],
          'u64': ['18446744073709551615', '18446744073709551610', '10000000000000000000', '9999999999999999999', '1']}
NEG_MAX = {'i8': '128', 'i16': '32768', 'i32': '2147483648', 'i64': '9223372036854775808'}
UNS = {'i8': 'u8', 'i16': 'u16', 'i32': 'u32', 'i64': 'u64'}
CT = {k: c for k, _, c, _, _ in TYPES}
CXX = {k: t for k, t, _, _, _ in TYPES}

TU = TU_PROLOGUE + '#include <tao/pegtl/contrib/integer.hpp>\n'


def lit(m, k):
    return m + ('UL' if k in ('u64',) else ('U' if k == 'u32' else ''))


def accd_list():
    out = []
    for k, t, c, sg, mx in TYPES:
        out.append(('accd_%s' % k, k, None, mx))
    for k, ms in MAXIMA.items():
        for m in ms[1:]:
            out.append(('accd_%s_m%s' % (k, m), k, m, lit(m, k)))
    for k, m in NEG_MAX.items():
        out.append(('accd_%s_neg' % UNS[k], UNS[k], m, lit(m, UNS[k])))
    return out


def tu():
    s = TU
    for name, k, m, mx in accd_list():
        targs = CXX[k] if m is None else '%s, %s' % (CXX[k], lit(m, k))
        s += 'namespace vf { auto root_%s(%s& r, char d) { return internal::accumulate_digit< %s >( r, d ); } }\n' % (name, CXX[k], targs)
        s += 'namespace vf { auto root_%s(%s& r, std::string_view sv) { return internal::accumulate_digits< %s >( r, sv ); } }\n' % (name.replace('accd', 'accds'), CXX[k], targs)
    for k, t, c, sg, mx in TYPES:
        if sg:
            s += 'namespace vf { auto root_cneg_%s(%s& r, std::string_view sv) { return internal::convert_negative< %s >( r, sv ); } }\n' % (k, t, t)
            s += 'namespace vf { auto root_cpos_%s(%s& r, std::string_view sv) { return internal::convert_positive< %s >( r, sv ); } }\n' % (k, t, t)
            s += 'namespace vf { auto root_csig_%s(%s& r, std::string_view sv) { return internal::convert_signed< %s >( r, sv ); } }\n' % (k, t, t)
        else:
            s += 'namespace vf { auto root_cuns_%s(%s& r, std::string_view sv) { return internal::convert_unsigned< %s >( r, sv ); } }\n' % (k, t, t)
    return s


PRE = '''
_Bool vf_canary;
#define MAXN %d
#define OFF(p) __CPROVER_POINTER_OFFSET(p)
#define OLD(x) __CPROVER_old(x)
#define RET __CPROVER_return_value
typedef unsigned __int128 WIDE;
#define ISDIG(c) ((c) >= '0' && (c) <= '9')
/* ghost Horner fold over the digit string: own index g_i, own data pointer g_data */
WIDE g_h; size_t g_i; const char* g_data; int g_alldig; size_t g_len;
''' % MAXN


def accd_contract(ctype, mx, canary=True, guarded=False, param_r='result', param_d='digit'):
    """accumulate_digit<I,Max>: exact, or reports overflow.
    strict form (enforced on the real body, and used as stub where the caller checks is_digit):
        requires ISDIG(digit) && 0 <= *result <= Max ; ensures Q
    guarded form (stub inside accumulate_digits, whose own documented precondition "input is a
    sequence of digits" cannot be stated without a quantifier): no requires, ensures P ==> Q.
    The guarded form is a logical consequence of the strict one for every execution in which P holds."""
    P = "ISDIG(%s) && OLD(*%s) >= 0 && (WIDE)OLD(*%s) <= (WIDE)%s" % (param_d, param_r, param_r, mx)
    g = ('(%s) ==> ' % P) if guarded else ''
    c = Contract()
    if guarded:
        c.add(R('__CPROVER_w_ok(%s, sizeof(%s))' % (param_r, ctype), 'accd-pre', ('C15',)))
    else:
        c.add(R('__CPROVER_w_ok(%s, sizeof(%s)) && ISDIG(%s) && *%s >= 0 && (WIDE)*%s <= (WIDE)%s' % (param_r, ctype, param_d, param_r, param_r, mx), 'accd-pre', ('C15',)))
    c.add(A('*%s' % param_r))
    c.add(E(g + "(RET == ((WIDE)OLD(*%s) * 10 + (WIDE)(%s - '0') <= (WIDE)%s))" % (param_r, param_d, mx), 'ACCD-OVERFLOW-EXACT', ('C15',)))
    c.add(E(g + "(RET ==> ((WIDE)*%s == (WIDE)OLD(*%s) * 10 + (WIDE)(%s - '0')))" % (param_r, param_r, param_d), 'ACCD-VALUE', ('C15',)))
    c.add(E(g + '(!RET ==> (*%s == OLD(*%s)))' % (param_r, param_r), 'ACCD-NO-WRAP-ON-OVERFLOW', ('C15',)))
    c.add(E('RET == 0 || RET == 1', 'ret-bool'))
    if canary:
        c.add(E('!RET || vf_canary', 'canary_ok'))
        c.add(E('RET || vf_canary', 'canary_fail'))
    return c


SV = 'input'   # parameter name of the string_view in integer.hpp


def accds_contract(ctype, mx, canary=True, sv=SV, res='result'):
    c = Contract(
        R('__CPROVER_w_ok(%s, sizeof(%s)) && *%s >= 0 && (WIDE)*%s <= (WIDE)%s && %s._M_len <= MAXN && __CPROVER_r_ok(%s._M_str, %s._M_len)'
          % (res, ctype, res, res, mx, sv, sv, sv), 'accds-pre', ('C15',)),
        R('g_i == 0 && g_h == (WIDE)*%s && g_alldig == 1 && g_data == %s._M_str && g_len == %s._M_len' % (res, sv, sv), 'accds-ghost-pre'),
        A('*%s, g_i, g_h, g_alldig' % res),
        E('(RET && g_alldig) ==> (g_i == g_len && (WIDE)*%s == g_h && g_h <= (WIDE)%s)' % (res, mx), 'ACCDS-VALUE-EXACT', ('C15',)),
        E('(!RET && g_alldig && g_i < g_len && ISDIG(g_data[g_i])) ==> (g_h * 10 + (WIDE)(g_data[g_i] - \'0\') > (WIDE)%s)' % mx, 'ACCDS-OVERFLOW-ONLY-WHEN-TOO-BIG', ('C15',)),
        E('!RET ==> g_i < g_len', 'ACCDS-FAIL-INSIDE', ('C15',)),
        E('RET == 0 || RET == 1', 'ret-bool'),
    )
    if canary:
        c.add(E('!RET || vf_canary', 'canary_ok'))
        c.add(E('RET || vf_canary', 'canary_fail'))
    return c


ACCDS_LOOP = ('__CPROVER_assigns(__begin3, *result, g_i, g_h, g_alldig)\n'
              '__CPROVER_loop_invariant(__CPROVER_same_object(__begin3, g_data) && OFF(__begin3) == OFF(g_data) + g_i && g_i <= g_len'
              ' && __end3 == __CPROVER_loop_entry(__end3) && __CPROVER_same_object(__end3, g_data) && OFF(__end3) == OFF(g_data) + g_len'
              ' && (g_alldig == 0 || g_alldig == 1)'
              ' && (g_alldig ==> (*result >= 0 && (WIDE)*result == g_h && g_h <= (WIDE)%s)))\n'
              '__CPROVER_decreases(g_len - g_i)')
ACCDS_GHOST = "{ g_alldig = (g_alldig && ISDIG(g_data[g_i])) ? 1 : 0; g_h = g_h * 10 + (WIDE)(g_data[g_i] - '0'); g_i = g_i + 1; }"

H_ACCD = '''
%(ct)s w_r; char w_d; _Bool w_ret;
int main(void)
{
  %(ct)s r; char d;
  w_r = r; w_d = d;
  w_ret = $ENTRY(&r, d);
  return 0;
}
'''

H_SV = '''
size_t w_n; unsigned char w_b[24]; %(ct)s w_r; _Bool w_ret;
int main(void)
{
  size_t n; __CPROVER_assume(n <= MAXN);
#ifdef VF_SMALL
  __CPROVER_assume(n <= 24);
#endif
  char* buf = malloc(n); __CPROVER_assume(buf != 0);
  %(ct)s r;
  struct $REC{std::basic_string_view<char>} sv; sv._M_str = buf; sv._M_len = n;
  w_n = n; w_r = r;
  for (int i = 0; i < 24; ++i) if (i < n) w_b[i] = (unsigned char)buf[i];
  g_i = 0; g_h = (WIDE)r; g_alldig = 1; g_data = buf; g_len = n;
  w_ret = $ENTRY(&r, sv);
  return 0;
}
'''


def stub_for(pattern_fn, make):
    return (pattern_fn, make)


def max_of_accd(fi):
    """Maximum template argument of an accumulate_digit(s) instantiation, as C literal + C type"""
    import re
    m = re.search(r'accumulate_digits?<([a-z ]+), (?:\([^)]*\))?(\d+)[ul]*>', fi['pretty'])
    if not m:
        return None
    t = m.group(1).strip()
    v = m.group(2)
    c = {'unsigned char': 'unsigned char', 'unsigned short': 'unsigned short', 'unsigned int': 'unsigned int', 'unsigned long': 'unsigned long',
         'signed char': 'signed char', 'short': 'short', 'int': 'int', 'long': 'long'}[t]
    suf = 'UL' if c in ('unsigned long',) else ('L' if c == 'long' else ('U' if c == 'unsigned int' else ''))
    return c, v + suf


def accd_stub(fi):
    r = max_of_accd(fi)
    if r is None:
        return None
    return accd_contract(r[0], r[1], canary=False, guarded=True)


def accds_stub(fi):
    r = max_of_accd(fi)
    if r is None:
        return None
    return accds_contract(r[0], r[1], canary=False)


H_CONV = '''
size_t w_n; unsigned char w_b[24]; _Bool w_ret;
int main(void)
{
  size_t n; __CPROVER_assume(n <= MAXN %(nmin)s);
#ifdef VF_SMALL
  __CPROVER_assume(n <= 24);
#endif
  char* buf = malloc(n); __CPROVER_assume(buf != 0);
  %(ct)s r = 0;
  struct $REC{std::basic_string_view<char>} sv; sv._M_str = buf; sv._M_len = n;
  w_n = n;
  for (int i = 0; i < 24; ++i) if (i < n) w_b[i] = (unsigned char)buf[i];
  size_t skip = %(skip)s;
#ifdef VF_SMALL
  for (int i = 0; i < 24; ++i) if (skip + i < n) __CPROVER_assume(ISDIG(buf[skip + i]));   /* witness search inside the documented domain */
#endif
  g_i = 0; g_h = 0; g_alldig = 1; g_data = buf + skip; g_len = n - skip;
  w_ret = $ENTRY(&r, sv);
  return 0;
}
'''


def conv_contract(ctype, kind, mx, negmax):
    """convert_unsigned / convert_positive / convert_negative / convert_signed"""
    pre = '__CPROVER_w_ok(result, sizeof(%s)) && *result == 0 && input._M_len <= MAXN && __CPROVER_r_ok(input._M_str, input._M_len)' % ctype
    if kind == 'csig':
        pre += " && input._M_len >= 1 && g_data == input._M_str + ((input._M_str[0] == '-' || input._M_str[0] == '+') ? 1 : 0)" \
               " && g_len == input._M_len - ((input._M_str[0] == '-' || input._M_str[0] == '+') ? 1 : 0)"
    else:
        pre += ' && g_data == input._M_str && g_len == input._M_len'
    c = Contract(R(pre, 'conv-pre', ('C15',)), R('g_i == 0 && g_h == 0 && g_alldig == 1', 'conv-ghost-pre'),
                 A('*result, g_i, g_h, g_alldig'))
    pos = '(RET && g_alldig) ==> (g_i == g_len && *result >= 0 && (WIDE)*result == g_h && g_h <= (WIDE)%s)' % mx
    neg = '(RET && g_alldig) ==> (g_i == g_len && g_h <= (WIDE)%s && (__int128)*result == -(__int128)g_h)' % negmax
    povf = "(!RET && g_alldig && g_i < g_len && ISDIG(g_data[g_i])) ==> (g_h * 10 + (WIDE)(g_data[g_i] - '0') > (WIDE)%s)" % mx
    novf = "(!RET && g_alldig && g_i < g_len && ISDIG(g_data[g_i])) ==> (g_h * 10 + (WIDE)(g_data[g_i] - '0') > (WIDE)%s)" % negmax
    if kind in ('cuns', 'cpos'):
        c.add(E(pos, 'CONV-VALUE-EXACT', ('C15',)), E(povf, 'CONV-OVERFLOW-ONLY-WHEN-TOO-BIG', ('C15',)))
    elif kind == 'cneg':
        c.add(E(neg, 'CONV-NEG-VALUE-EXACT', ('C15',)), E(novf, 'CONV-NEG-OVERFLOW-ONLY-WHEN-TOO-BIG', ('C15',)))
    else:
        isneg = "(OLD(input._M_str[0]) == '-')"
        c.add(E('%s ==> (%s)' % (isneg, neg), 'CONV-NEG-VALUE-EXACT', ('C15',)),
              E('!%s ==> (%s)' % (isneg, pos), 'CONV-VALUE-EXACT', ('C15',)),
              E('%s ==> (%s)' % (isneg, novf), 'CONV-NEG-OVERFLOW-ONLY-WHEN-TOO-BIG', ('C15',)),
              E('!%s ==> (%s)' % (isneg, povf), 'CONV-OVERFLOW-ONLY-WHEN-TOO-BIG', ('C15',)))
    c.add(E('!RET ==> g_i < g_len', 'CONV-FAIL-INSIDE', ('C15',)))
    c.add(E('!RET || vf_canary', 'canary_ok'))
    c.add(E('RET || vf_canary', 'canary_fail'))
    return c


def conv_jobs(tier):
    out = []
    for k, t, ct, sg, mx in TYPES:
        kinds = ('cneg', 'cpos', 'csig') if sg else ('cuns',)
        for kind in kinds:
            negmax = lit(NEG_MAX[k], UNS[k]) if sg else '0'
            skip = "((n >= 1 && (buf[0] == '-' || buf[0] == '+')) ? 1 : 0)" if kind == 'csig' else '0'
            j = Job('%s_%s' % (kind, k), NAME, '%s_%s' % (kind, k), conv_contract(ct, kind, mx, negmax), ('C15',), prelude=PRE,
                    harness=H_CONV % {'ct': ct, 'skip': skip, 'nmin': '&& n >= 1' if kind == 'csig' else ''},
                    stubs=[(r'internal::accumulate_digits<', accds_stub)],
                    expect_fail_canary=('canary_ok', 'canary_fail'),
                    replay={'kind': 'conv', 'ctype': ct, 'mode': {'cneg': 'neg', 'cpos': 'pos', 'cuns': 'pos', 'csig': 'sig'}[kind], 'max': mx, 'negmax': negmax},
                    desc='%s<%s>: exact value or overflow report; arithmetic overflow checks on' % (
                        {'cneg': 'convert_negative', 'cpos': 'convert_positive', 'csig': 'convert_signed', 'cuns': 'convert_unsigned'}[kind], t))
            out.append(j)
    return out


def jobs(tier):
    out = conv_jobs(tier)
    P = ('C15',)
    for name, k, m, mx in accd_list():
        quick = m is None or m in (MAXIMA.get(k, [None, None])[1:2]) or name.endswith('_neg')
        if tier != 'thorough' and not quick:
            continue
        out.append(Job(name, NAME, name, accd_contract(CT[k], mx), P, prelude=PRE, harness=H_ACCD % {'ct': CT[k]},
                       expect_fail_canary=('canary_ok', 'canary_fail'),
                       desc='accumulate_digit<%s,%s>: full domain (2^bits x 256), loop-free => complete' % (CXX[k], mx)))
        out.append(Job(name.replace('accd', 'accds'), NAME, name.replace('accd', 'accds'), accds_contract(CT[k], mx), P, prelude=PRE,
                       harness=H_SV % {'ct': CT[k]}, stubs=[(r'internal::accumulate_digit<', accd_stub)],
                       loops={(r'internal::accumulate_digits<', 1): ACCDS_LOOP % mx},
                       expect_fail_canary=('canary_ok', 'canary_fail'),
                       desc='accumulate_digits<%s,%s>: any length, ghost Horner fold, loop contract' % (CXX[k], mx)))
        out[-1].ghost = {(r'internal::accumulate_digits<', 1): ACCDS_GHOST}
    return out


# ======================================================================
# scanning rules on an input: match_unsigned, match_and_convert_*, *_rule
# ======================================================================
SCAN_PRE = '''
typedef unsigned __int128 WIDE;
#define ISDIG(c) ((c) >= '0' && (c) <= '9')
size_t g_k;                 /* ghost probe index: unconstrained, so a clause proved for it holds for every index */
const char* g_p0;           /* ghost: cursor at entry */
WIDE g_h; size_t g_i;       /* ghost Horner fold over the consumed digits, own index */
#define P0 (g_p0)
#define NUMERAL_OK(in) ( CONSUMED(in) >= 1 && (g_k < CONSUMED(in) ==> ISDIG(P0[g_k])) \\
   && (CONSUMED(in) < AVAIL_OLD(in) ==> !ISDIG(P0[CONSUMED(in)])) && (P0[0] == '0' ==> CONSUMED(in) == 1) )
#define NUMERAL_NONE(in) ( AVAIL_OLD(in) == 0 || !ISDIG(P0[0]) || (P0[0] == '0' && AVAIL_OLD(in) >= 2 && ISDIG(P0[1])) )
#define POS_DIGITS(in) (BYTE(in) == OLD(BYTE(in)) + CONSUMED(in) && LINE(in) == OLD(LINE(in)) && COL(in) == OLD(COL(in)) + CONSUMED(in))
'''


def scan_pos(tr):
    if tr != 'eager':
        return None
    return E('(RET && !vf_exc.pending) ==> POS_DIGITS(in)', 'RC-POS-DIGITS', ('C06',))


# native (replay) bindings of the scan macros: the probe clause is evaluated for every index
def native_scan_defs(tr, mx='0'):
    d = '''
typedef unsigned __int128 WIDE;
#define ISDIG(c) ((c) >= '0' && (c) <= '9')
#define P0 ((const char*)p)
static bool numeral_ok() { if (consumed < 1) return false; for (size_t k = 0; k < consumed; ++k) if (!ISDIG(P0[k])) return false;
   if (consumed < avail && ISDIG(P0[consumed])) return false; if (P0[0] == '0' && consumed != 1) return false; return true; }
#define NUMERAL_OK(in) numeral_ok()
#define NUMERAL_NONE(in) ( avail == 0 || !ISDIG(P0[0]) || (P0[0] == '0' && avail >= 2 && ISDIG(P0[1])) )
static bool overflow_in_run(WIDE mx) { if (avail == 0 || P0[0] == '0') return false; WIDE h = 0;
   for (size_t i = 0; i < avail && ISDIG(P0[i]); ++i) { if (h * 10 + (WIDE)(P0[i] - '0') > mx) return true; h = h * 10 + (WIDE)(P0[i] - '0'); } return false; }
#define OVERFLOW_AT_GI(mx) overflow_in_run((WIDE)(mx))
'''
    if tr == 'eager':
        d += '#define POS_DIGITS(in) (byte1 == byte0 + consumed && line1 == line0 && col1 == col0 + consumed)\n'
    return d


def scan_loop_inv(tr, extra=''):
    inv = ('PTRS_OK(in) && IN_END(in) == __CPROVER_loop_entry(IN_END(in)) && IN_BEGIN(in) == __CPROVER_loop_entry(IN_BEGIN(in))'
           ' && __CPROVER_same_object(CUR(in), g_p0) && OFF(CUR(in)) >= OFF(__CPROVER_loop_entry(CUR(in))) && OFF(g_p0) <= OFF(CUR(in))'
           ' && (g_k < OFF(CUR(in)) - OFF(g_p0) ==> ISDIG(g_p0[g_k]))')
    if tr == 'eager':
        inv += (' && BYTE(in) == __CPROVER_loop_entry(BYTE(in)) + (OFF(CUR(in)) - OFF(__CPROVER_loop_entry(CUR(in))))'
                ' && LINE(in) == __CPROVER_loop_entry(LINE(in))'
                ' && COL(in) == __CPROVER_loop_entry(COL(in)) + (OFF(CUR(in)) - OFF(__CPROVER_loop_entry(CUR(in))))')
    return inv + extra


def match_unsigned_contract(tr):
    c = rc_leaf(tr, 'lf_crlf', progress=True, pos=False, extra=[
        E('RET ==> NUMERAL_OK(in)', 'INT-SYNTAX-ACCEPT', ('C15',)),
        E('!RET ==> NUMERAL_NONE(in)', 'INT-SYNTAX-REJECT', ('C15',)),
        scan_pos(tr)])
    c.clauses.insert(1, R('g_p0 == CUR(in) && vf_exc.pending == 0', 'scan-ghost-pre'))
    return c


SCAN_ROOTS = []
for tr, sfx in (('eager', 'e'), ('lazy', 'l')):
    SCAN_ROOTS.append(('mu_%s' % sfx, tr, 'internal::match_unsigned( in )', ''))
    SCAN_ROOTS.append(('urule_%s' % sfx, tr, 'unsigned_rule::match( in )', ''))


def tu_scan():
    s = ''
    for name, tr, expr, extra in SCAN_ROOTS:
        s += tu_root(name, INPUT_TYPES[(tr, 'lf_crlf')], expr, extra)
    return s


_tu_base = tu


def tu():
    return _tu_base() + tu_scan()


def scan_harness(tr, call, extra_decl=''):
    return input_harness('vf_' + INPUT_TYPES[(tr, 'lf_crlf')], tr, call,
                         extra_decl=extra_decl, pre_call='  g_p0 = CUR(&in); vf_exc.pending = 0; g_h = 0; g_i = 0;\n')


def rule_traits():
    """C11 premise for the roots that are rules (the others are internal helper functions): from the real traits in integer.hpp"""
    return traits_of(NAME, {name: expr.replace('::match( in )', '') for name, tr, expr, extra in SCAN_ROOTS if expr.endswith('::match( in )')},
                     includes=('tao/pegtl/contrib/integer.hpp',))


def scan_jobs(tier):
    out = []
    for name, tr, expr, extra in SCAN_ROOTS:
        if not name.startswith(('mu_', 'urule_')):
            continue
        con = match_unsigned_contract(tr)
        for c in (c11_leaf(rule_traits()[name]) if name in rule_traits() else []):
            con.add(c)
        j = Job(name, NAME, name, con, ('C15', 'C02', 'C03', 'C06', 'C11'), prelude=prelude(tr) + SCAN_PRE,
                harness=scan_harness(tr, 'w_ret = $ENTRY(&in)'),
                loops={(r'internal::match_unsigned<', 1): '__CPROVER_assigns(IT_FIELDS(in))\n__CPROVER_loop_invariant(%s)' % scan_loop_inv(tr)},
                expect_fail_canary=canaries(),
                replay={'kind': 'leaf', 'tracking': tr, 'eol': 'lf_crlf', 'defs': '', 'defs_after': native_scan_defs(tr)},
                desc='%s on memory_input<%s>: numeral syntax 0|[1-9][0-9]*, peek-before-bump, bounds, positions' % (expr, tr))
        out.append(j)
    return out


_jobs_base = jobs


def jobs(tier):
    return _jobs_base(tier) + scan_jobs(tier)


# ---------------------------------------------------------------- match_and_convert_*
MC = [  # (key, C++ unsigned type, C type, Maximum literal C++, Maximum literal C)
    ('u8', 'std::uint8_t', 'unsigned char', '255', '255'),
    ('u16', 'std::uint16_t', 'unsigned short', '65535', '65535'),
    ('u64', 'std::uint64_t', 'unsigned long', '18446744073709551615ULL', '18446744073709551615UL'),
    ('u32m', 'std::uint32_t', 'unsigned int', '1000000', '1000000U'),
    ('u8m5', 'std::uint8_t', 'unsigned char', '5', '5'),      # explicit Maximum below 9: a single digit can already exceed it
]
for tr, sfx in (('eager', 'e'), ('lazy', 'l')):
    for k, t, ct, mcxx, mc in MC:
        it = INPUT_TYPES[(tr, 'lf_crlf')]
        SCAN_ROOTS.append(('mcn_%s_%s' % (k, sfx), tr,
                           'internal::match_and_convert_unsigned_with_maximum_nothrow< %s, %s, %s >( in, st )' % (it, t, mcxx), ', %s& st' % t))
        SCAN_ROOTS.append(('mct_%s_%s' % (k, sfx), tr,
                           'internal::match_and_convert_unsigned_with_maximum_throws< %s, %s, %s >( in, st )' % (it, t, mcxx), ', %s& st' % t))
        SCAN_ROOTS.append(('maxrule_%s_%s' % (k, sfx), tr, 'maximum_rule< %s, %s >::match( in )' % (t, mcxx), ''))

MC_PRE = '''
#define OVERFLOW_AT_GI(mx) ( P0[0] != '0' && ISDIG(P0[g_i]) && g_i < AVAIL_OLD(in) && (g_k < g_i ==> ISDIG(P0[g_k])) \\
   && g_h * 10 + (WIDE)(P0[g_i] - '0') > (WIDE)(mx) )
'''


def mc_contract(tr, kind, ct, mx, with_st):
    ex = []
    nx = '!vf_exc.pending && '
    ex.append(E('(%sRET) ==> NUMERAL_OK(in)' % nx, 'INT-SYNTAX-ACCEPT', ('C15',)))
    if kind == 'nothrow':
        ex.append(E('(%s!RET) ==> (NUMERAL_NONE(in) || OVERFLOW_AT_GI(%s))' % (nx, mx), 'INT-REJECT-OR-OVERFLOW', ('C15',)))
        ex.append(E('vf_exc.pending == 0', 'INT-NOTHROW', ('C15', 'C20')))
    else:
        ex.append(E('(%s!RET) ==> NUMERAL_NONE(in)' % nx, 'INT-SYNTAX-REJECT', ('C15',)))
        ex.append(E('vf_exc.pending ==> (OVERFLOW_AT_GI(%s) && CONSUMED(in) == g_i)' % mx, 'INT-OVERFLOW-EXCEPTION-ONLY-WHEN-TOO-BIG', ('C15', 'C05')))
    if with_st:
        ex.append(E("(%sRET) ==> (P0[0] == '0' ? *st == 0 : ((WIDE)*st == g_h && g_i == CONSUMED(in) && g_h <= (WIDE)%s))" % (nx, mx),
                    'INT-VALUE-EXACT', ('C15',)))
    ex.append(scan_pos(tr))
    c = Contract(
        R('VALID_PRE(in)'),
        R('g_p0 == CUR(in) && vf_exc.pending == 0 && g_h == 0 && g_i == 0', 'scan-ghost-pre'),
    )
    if with_st:
        c.add(R('__CPROVER_w_ok(st, sizeof(%s)) && *st == 0' % ct, 'st-pre'))
        c.add(A('IT_FIELDS(in), *st, g_h, g_i, vf_exc, vf_exc_counter'))
    else:
        c.add(A('IT_FIELDS(in), g_h, g_i, vf_exc, vf_exc_counter'))
    c.add(E('VALID_POST(in)', 'RC-VALID', ('C02', 'C03')))
    c.add(E('MONO(in)', 'RC-MONO', ('C02',)))
    c.add(E('(!vf_exc.pending && !RET) ==> ITER_UNCHANGED(in)', 'RC-REWIND', ('C02',)))
    c.add(E('(!vf_exc.pending && RET) ==> PROGRESS(in)', 'RC-PROGRESS', ('C15',)))
    for x in ex:
        c.add(x)
    c.add(E('!RET || vf_canary', 'canary_ok'))
    c.add(E('RET || vf_canary', 'canary_fail'))
    return c


def mc_loops(tr, kind, mx):
    base = ('PTRS_OK(in) && IN_END(in) == __CPROVER_loop_entry(IN_END(in)) && IN_BEGIN(in) == __CPROVER_loop_entry(IN_BEGIN(in))'
            ' && __CPROVER_same_object(CUR(in), g_p0) && vf_exc.pending == 0'
            ' && g_i < g_n - OFF(g_p0) && ISDIG(c) && c == g_p0[g_i] && g_p0[0] != \'0\''
            ' && (g_k < g_i ==> ISDIG(g_p0[g_k])) && (WIDE)*st == g_h && g_h <= (WIDE)%s' % mx)
    if kind == 'nothrow':
        inv = base + ' && b == g_i && CUR(in) == __CPROVER_loop_entry(CUR(in)) && OFF(CUR(in)) == OFF(g_p0)'
        if tr == 'eager':
            inv += ' && BYTE(in) == __CPROVER_loop_entry(BYTE(in)) && LINE(in) == __CPROVER_loop_entry(LINE(in)) && COL(in) == __CPROVER_loop_entry(COL(in))'
        return '__CPROVER_assigns(c, b, *st, g_h, g_i)\n__CPROVER_loop_invariant(%s)' % inv
    inv = base + ' && OFF(CUR(in)) == OFF(g_p0) + g_i'
    if tr == 'eager':
        inv += (' && BYTE(in) == __CPROVER_loop_entry(BYTE(in)) + g_i && LINE(in) == __CPROVER_loop_entry(LINE(in))'
                ' && COL(in) == __CPROVER_loop_entry(COL(in)) + g_i')
    return '__CPROVER_assigns(c, IT_FIELDS(in), *st, g_h, g_i, vf_exc, vf_exc_counter)\n__CPROVER_loop_invariant(%s)' % inv


MC_GHOST = "{ g_h = g_h * 10 + (WIDE)(g_p0[g_i] - '0'); g_i = g_i + 1; }"


def mc_jobs(tier):
    out = []
    for name, tr, expr, extra in SCAN_ROOTS:
        if not name.startswith(('mcn_', 'mct_', 'maxrule_')):
            continue
        k = name.split('_')[1]
        _, t, ct, mcxx, mc = [m for m in MC if m[0] == k][0]
        if tier != 'thorough' and tr == 'lazy' and k not in ('u8',):
            continue
        kind = 'throws' if name.startswith('mct_') else 'nothrow'
        with_st = not name.startswith('maxrule_')
        con = mc_contract(tr, kind, ct, mc, with_st)
        for c in (c11_leaf(rule_traits()[name]) if name in rule_traits() else []):
            con.add(c)
        fnpat = r'internal::match_and_convert_unsigned_with_maximum_%s<' % kind
        extra_decl = ('  %s st = 0;\n' % ct) if with_st else ''
        call = 'w_ret = $ENTRY(&in, &st)' if with_st else 'w_ret = $ENTRY(&in)'
        j = Job(name, NAME, name, con, ('C15', 'C02', 'C03', 'C06', 'C11'), prelude=prelude(tr) + SCAN_PRE + MC_PRE,
                harness=scan_harness(tr, call, extra_decl=extra_decl),
                stubs=[(r'internal::accumulate_digit<', lambda fi: accd_contract(*max_of_accd(fi), canary=False))],
                loops={(fnpat, 1): mc_loops(tr, kind, mc)},
                expect_fail_canary=canaries(),
                replay=({'kind': 'leaf', 'tracking': tr, 'eol': 'lf_crlf', 'defs': '', 'defs_after': native_scan_defs(tr)} if not with_st else None),
                desc='%s on memory_input<%s>' % (expr, tr))
        j.ghost = {(fnpat, 1): MC_GHOST}
        out.append(j)
    return out


_jobs_base2 = jobs


def jobs(tier):
    return _jobs_base2(tier) + mc_jobs(tier)


# ======================================================================
# bounded companions: the conversion functions with the REAL callee bodies, digit strings of bounded length,
# complete unwinding, against a ghost-free Horner spec function.  They do not depend on loop contracts or
# woven ghost code, so a restructured implementation is still checked (labelled bounded, never counted as proof).
# ======================================================================
NB = 21
BPRE = '''
_Bool vf_canary;
#define NB %d
#define OLD(x) __CPROVER_old(x)
#define RET __CPROVER_return_value
typedef unsigned __int128 WIDE;
#define ISDIG(c) ((c) >= '0' && (c) <= '9')
/* value of the digit string p[0..n), n <= NB, in 128 bits (cannot wrap: 10^21 < 2^70) */
static inline WIDE vf_horner(const char* p, size_t n)
{
  WIDE h = 0;
  for (size_t i = 0; i < NB; ++i) if (i < n) h = h * 10 + (WIDE)(p[i] - '0');
  return h;
}
const char* g_digits; size_t g_ndigits;
''' % NB

H_BCONV = '''
size_t w_n; unsigned char w_b[24]; _Bool w_ret;
int main(void)
{
  size_t n; __CPROVER_assume(n >= 1 && n <= NB + 1);
  char* buf = malloc(n); __CPROVER_assume(buf != 0);
  %(ct)s r = 0;
  struct $REC{std::basic_string_view<char>} sv; sv._M_str = buf; sv._M_len = n;
  size_t skip = %(skip)s;
  __CPROVER_assume(n - skip >= 1 && n - skip <= NB);
  for (int i = 0; i < NB; ++i) if (skip + i < n) __CPROVER_assume(ISDIG(buf[skip + i]));
  w_n = n;
  for (int i = 0; i < 24; ++i) if (i < n) w_b[i] = (unsigned char)buf[i];
  g_digits = buf + skip; g_ndigits = n - skip;
  w_ret = $ENTRY(&r, sv);
  return 0;
}
'''


def bconv_contract(ctype, kind, mx, negmax):
    pre = '__CPROVER_w_ok(result, sizeof(%s)) && *result == 0 && __CPROVER_r_ok(input._M_str, input._M_len) && g_ndigits >= 1 && g_ndigits <= NB' % ctype
    if kind == 'csig':
        pre += " && input._M_len >= 2 - ((input._M_str[0] == '-' || input._M_str[0] == '+') ? 0 : 1) && g_digits == input._M_str + ((input._M_str[0] == '-' || input._M_str[0] == '+') ? 1 : 0)" \
               " && g_ndigits == input._M_len - ((input._M_str[0] == '-' || input._M_str[0] == '+') ? 1 : 0)"
    else:
        pre += ' && g_digits == input._M_str && g_ndigits == input._M_len'
    c = Contract(R(pre, 'bconv-pre'), A('*result'))
    H = 'vf_horner(g_digits, g_ndigits)'
    pos = ['RET == (%s <= (WIDE)%s)' % (H, mx), 'RET ==> ((WIDE)*result == %s && *result >= 0)' % H]
    neg = ['RET == (%s <= (WIDE)%s)' % (H, negmax), 'RET ==> ((__int128)*result == -(__int128)%s)' % H]
    if kind in ('cuns', 'cpos'):
        c.add(E(pos[0], 'BOUNDED-OVERFLOW-REPORT-EXACT', ('C15',)), E(pos[1], 'BOUNDED-VALUE-EXACT', ('C15',)))
    elif kind == 'cneg':
        c.add(E(neg[0], 'BOUNDED-OVERFLOW-REPORT-EXACT', ('C15',)), E(neg[1], 'BOUNDED-VALUE-EXACT', ('C15',)))
    else:
        isneg = "(OLD(input._M_str[0]) == '-')"
        c.add(E('%s ? (%s) : (%s)' % (isneg, neg[0], pos[0]), 'BOUNDED-OVERFLOW-REPORT-EXACT', ('C15',)),
              E('%s ? (%s) : (%s)' % (isneg, neg[1], pos[1]), 'BOUNDED-VALUE-EXACT', ('C15',)))
    c.add(E('!RET || vf_canary', 'canary_ok'))
    c.add(E('RET || vf_canary', 'canary_fail'))
    return c


def bconv_jobs(tier):
    out = []
    for k, t, ct, sg, mx in TYPES:
        kinds = ('cneg', 'cpos', 'csig') if sg else ('cuns',)
        for kind in kinds:
            if tier != 'thorough' and kind == 'csig':
                continue
            if kind == 'csig' and k in ('i32', 'i64'):
                continue      # sign dispatch + both 21-digit conversions in one job: no answer within 5 min; cneg/cpos of these types and csig of i8/i16 are decided
            negmax = lit(NEG_MAX[k], UNS[k]) if sg else '0'
            skip = "((n >= 1 && (buf[0] == '-' || buf[0] == '+')) ? 1 : 0)" if kind == 'csig' else '0'
            j = Job('b_%s_%s' % (kind, k), NAME, '%s_%s' % (kind, k), bconv_contract(ct, kind, mx, negmax), ('C15',), prelude=BPRE,
                    harness=H_BCONV % {'ct': ct, 'skip': skip}, stubs=[], unwind=NB + 5,
                    bounded='digit strings of at most %d digits, real accumulate_digits/accumulate_digit bodies, complete unwinding (unwinding assertions on)' % NB,
                    expect_fail_canary=('canary_ok', 'canary_fail'), timeout=300,
                    replay={'kind': 'conv', 'ctype': ct, 'mode': {'cneg': 'neg', 'cpos': 'pos', 'cuns': 'pos', 'csig': 'sig'}[kind], 'max': mx, 'negmax': negmax},
                    desc='BOUNDED companion of %s_%s' % (kind, k))
            out.append(j)
    return out


_jobs_base3 = jobs


def jobs(tier):
    return _jobs_base3(tier) + bconv_jobs(tier)


# ======================================================================
# bounded companions of match_unsigned / match_and_convert_* / maximum_rule: real bodies incl. accumulate_digit, no loop
# contract, no woven ghost: complete unwinding (the digit loop ends after at most NBM digits: windows are NBM+2 bytes
# long at most).  Keeps these functions decided when their loop is restructured (seeded change C02-maxrule-bump-per-digit
# made the loop contracts unweavable: undecided instead of violation).  Labelled bounded.
# ======================================================================
NBM = 21
BM_SPEC = '''
typedef unsigned __int128 WIDEB;
/* number of leading decimal digits at p (counted up to NBM+1) */
static inline size_t vf_ndig(const vf_u8* p, size_t n) { size_t d = 0; for (int j = 0; j < %d; ++j) if (d == (size_t)j && (size_t)j < n && p[j] >= '0' && p[j] <= '9') d++; return d; }
static inline WIDEB vf_hornerb(const vf_u8* p, size_t n) { WIDEB h = 0; for (int j = 0; j < %d; ++j) if ((size_t)j < n) h = h * 10 + (WIDEB)(p[j] - '0'); return h; }
/* documented behaviour: 0 | [1-9][0-9]* not followed by a digit, value <= mx; returns consumed length, 0 = no match */
static inline size_t vf_maxnum_len(const vf_u8* p, size_t n, WIDEB mx, _Bool* overflow)
{
  size_t d = vf_ndig(p, n);
  *overflow = 0;
  if (d == 0) return 0;
  if (p[0] == '0') return d == 1 ? 1 : 0;
  if (d > %d || vf_hornerb(p, d) > mx) { *overflow = 1; return 0; }
  return d;
}
static inline size_t vf_maxnum(const vf_u8* p, size_t n, WIDEB mx) { _Bool o; return vf_maxnum_len(p, n, mx, &o); }
static inline _Bool vf_maxnum_ovf(const vf_u8* p, size_t n, WIDEB mx) { _Bool o; (void)vf_maxnum_len(p, n, mx, &o); return o; }
''' % (NBM + 1, NBM + 1, NBM)


def bm_jobs(tier):
    out = []
    for name, tr, expr, extra in SCAN_ROOTS:
        if name.startswith('mu_') or name.startswith('urule_'):
            k, ct, mc, kind, with_st = None, None, None, 'scan', False
        elif name.startswith(('mcn_', 'mct_', 'maxrule_')):
            k = name.split('_')[1]
            _, t, ct, mcxx, mc = [m for m in MC if m[0] == k][0]
            kind = 'throws' if name.startswith('mct_') else 'nothrow'
            with_st = not name.startswith('maxrule_')
        else:
            continue
        if tier != 'thorough' and tr == 'lazy' and k not in ('u8', None):
            continue
        if k == 'u64':
            continue      # 20-digit strings with 64-bit multiplications against a 128-bit Horner spec: no answer within 10 min; the u8/u16/u32 instantiations share the code
        P = ('C15',)
        con = Contract(R('VALID_PRE(in) && vf_exc.pending == 0'))
        if with_st:
            con.add(R('__CPROVER_w_ok(st, sizeof(%s)) && *st == 0' % ct, 'st-pre'))
            con.add(A('IT_FIELDS(in), *st, vf_exc, vf_exc_counter'))
        else:
            con.add(A('IT_FIELDS(in), vf_exc, vf_exc_counter'))
        con.add(E('VALID_POST(in)', 'RC-VALID', ('C02', 'C03')))
        con.add(E('MONO(in)', 'RC-MONO', ('C02',)))
        con.add(E('(!vf_exc.pending && !RET) ==> ITER_UNCHANGED(in)', 'RC-REWIND', ('C02',)))
        if kind == 'scan':
            # unsigned_rule / match_unsigned: any number of digits, no maximum: only the window bound limits the length
            con.add(E('vf_exc.pending == 0', 'BOUNDED-NOTHROW', P))
            con.add(E("RET == (vf_ndig(UOLD(in), AVAIL_OLD(in)) >= 1 && (UOLD(in)[0] != '0' || vf_ndig(UOLD(in), AVAIL_OLD(in)) == 1))", 'BOUNDED-NUMERAL-SYNTAX', P))
            con.add(E('RET ==> CONSUMED(in) == vf_ndig(UOLD(in), AVAIL_OLD(in))', 'BOUNDED-NUMERAL-LENGTH', P))
        else:
            M = '(WIDEB)%s' % mc
            if kind == 'nothrow':
                con.add(E('vf_exc.pending == 0', 'BOUNDED-NOTHROW', P))
                con.add(E('RET == (vf_maxnum(UOLD(in), AVAIL_OLD(in), %s) > 0)' % M, 'BOUNDED-ACCEPT-EXACT', P))
            else:
                con.add(E('vf_exc.pending == vf_maxnum_ovf(UOLD(in), AVAIL_OLD(in), %s)' % M, 'BOUNDED-RAISES-EXACTLY-ON-OVERFLOW', P + ('C05',)))
                con.add(E('!vf_exc.pending ==> (RET == (vf_maxnum(UOLD(in), AVAIL_OLD(in), %s) > 0))' % M, 'BOUNDED-ACCEPT-EXACT', P))
            con.add(E('(!vf_exc.pending && RET) ==> CONSUMED(in) == vf_maxnum(UOLD(in), AVAIL_OLD(in), %s)' % M, 'BOUNDED-LENGTH-EXACT', P))
            if with_st:
                con.add(E('(!vf_exc.pending && RET) ==> (WIDEB)*st == vf_hornerb(UOLD(in), CONSUMED(in))', 'BOUNDED-VALUE-EXACT', P))
        con.add(E('!RET || vf_canary', 'canary_ok'))
        con.add(E('RET || vf_canary', 'canary_fail'))
        extra_decl = ('  %s st = 0;\n' % ct) if with_st else ''
        call = 'w_ret = $ENTRY(&in, &st)' if with_st else 'w_ret = $ENTRY(&in)'
        j = Job('b_' + name, NAME, name, con, ('C15', 'C02', 'C03'), prelude=prelude(tr) + BM_SPEC,
                harness=input_harness('vf_' + INPUT_TYPES[(tr, 'lf_crlf')], tr, call, extra_decl=extra_decl,
                                      pre_call='  vf_exc.pending = 0; __CPROVER_assume(g_n - k <= %d);\n' % (NBM + 1)),
                stubs=[], unwind=NBM + 4, flags=['--object-bits', '10'],
                bounded='at most %d bytes after the cursor (digit strings of at most %d digits), real callee bodies, complete unwinding (unwinding assertions on)' % (NBM + 1, NBM + 1),
                expect_fail_canary=canaries(), timeout=600,
                replay=({'kind': 'leaf', 'tracking': tr, 'eol': 'lf_crlf', 'defs': BM_SPEC.replace('_Bool', 'bool')} if not with_st else None),
                desc='BOUNDED companion of %s' % name)
        out.append(j)
    return out


_jobs_base4 = jobs


def jobs(tier):
    return _jobs_base4(tier) + bm_jobs(tier)
