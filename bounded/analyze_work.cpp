// Bounded stand-in for analyze_cycles_impl::work() (C11, part (i) of DESIGN.md section 5 C11).
// NOT a proof: exhaustive enumeration of all abstract grammars with <= NMAX names, <= 2 sub-rules per rule and the
// four analyze types, run through the REAL analyze_cycles_impl (problems()), compared with an independent oracle:
// "some rule can be re-entered at the same input position" = cycle in the left-call graph, where a sub-rule is
// called at the start position iff all sub-rules before it (in sequence position) are nullable (least fixed point).
// Soundness demanded: oracle says cycle  ==>  problems() > 0.
#include <cstdio>
#include <cstdlib>
#include <string>
#include <vector>
#include <tao/pegtl/contrib/analyze.hpp>

using namespace tao::pegtl;
using internal::analyze_type;

struct probe : internal::analyze_cycles_impl {
   probe() : analyze_cycles_impl( -1 ) {}
   std::map< std::string_view, internal::analyze_entry >& entries() { return m_entries; }
};

static const char* NAMES[] = { "A", "B", "C", "D" };

struct arule { int type; std::vector< int > subs; };

static bool oracle_cycle( const std::vector< arule >& g )
{
   const int n = int( g.size() );
   std::vector< bool > nullable( n, false );
   for( bool ch = true; ch; ) {
      ch = false;
      for( int i = 0; i < n; ++i ) {
         bool v = false;
         switch( g[ i ].type ) {
            case 0: v = false; break;                                   // any
            case 1: v = true; break;                                    // opt
            case 2: v = true; for( int s : g[ i ].subs ) v = v && nullable[ s ]; break;   // seq
            case 3: v = false; for( int s : g[ i ].subs ) v = v || nullable[ s ]; break;  // sor
         }
         if( v && !nullable[ i ] ) { nullable[ i ] = true; ch = true; }
      }
   }
   std::vector< std::vector< int > > edge( n );
   for( int i = 0; i < n; ++i ) {
      if( g[ i ].type == 3 ) { for( int s : g[ i ].subs ) edge[ i ].push_back( s ); }
      else { for( int s : g[ i ].subs ) { edge[ i ].push_back( s ); if( !nullable[ s ] ) break; } }
   }
   // cycle detection (reachability of a node from itself)
   for( int s = 0; s < n; ++s ) {
      std::vector< bool > seen( n, false ); std::vector< int > st( edge[ s ] );
      while( !st.empty() ) { int x = st.back(); st.pop_back(); if( x == s ) return true; if( seen[ x ] ) continue; seen[ x ] = true; for( int y : edge[ x ] ) st.push_back( y ); }
   }
   return false;
}

int main( int argc, char** argv )
{
   const int NMAX = argc > 1 ? atoi( argv[ 1 ] ) : 3;
   unsigned long grammars = 0, cyclic = 0, flagged = 0, unsound = 0;
   for( int n = 1; n <= NMAX; ++n ) {
      // sub lists over n names of length 0..2
      std::vector< std::vector< int > > lists; lists.push_back( {} );
      for( int a = 0; a < n; ++a ) lists.push_back( { a } );
      for( int a = 0; a < n; ++a ) for( int b = 0; b < n; ++b ) lists.push_back( { a, b } );
      const unsigned long per = 4ul * lists.size();
      unsigned long total = 1; for( int i = 0; i < n; ++i ) total *= per;
      for( unsigned long code = 0; code < total; ++code ) {
         std::vector< arule > g( n ); unsigned long c = code;
         for( int i = 0; i < n; ++i ) { unsigned long r = c % per; c /= per; g[ i ].type = int( r % 4 ); g[ i ].subs = lists[ r / 4 ]; }
         probe p;
         for( int i = 0; i < n; ++i ) {
            auto it = p.entries().try_emplace( NAMES[ i ], analyze_type( g[ i ].type == 0 ? int( analyze_type::any ) : g[ i ].type == 1 ? int( analyze_type::opt ) : g[ i ].type == 2 ? int( analyze_type::seq ) : int( analyze_type::sor ) ) ).first;
            for( int s : g[ i ].subs ) it->second.subs.emplace_back( NAMES[ s ] );
         }
         const bool problems = p.problems() > 0;
         const bool cyc = oracle_cycle( g );
         ++grammars; cyclic += cyc; flagged += problems;
         if( cyc && !problems ) {
            ++unsound;
            if( unsound <= 5 ) {
               std::printf( "UNSOUND grammar:" );
               for( int i = 0; i < n; ++i ) { std::printf( " %s=%s<", NAMES[ i ], g[ i ].type == 0 ? "any" : g[ i ].type == 1 ? "opt" : g[ i ].type == 2 ? "seq" : "sor" ); for( int s : g[ i ].subs ) std::printf( "%s,", NAMES[ s ] ); std::printf( ">" ); }
               std::printf( "\n" );
            }
         }
      }
   }
   std::printf( "RESULT grammars=%lu cyclic=%lu flagged=%lu unsound=%lu nmax=%d\n", grammars, cyclic, flagged, unsound, NMAX );
   return unsound ? 3 : 0;
}
