// Bounded stand-in for the whole uri::IPv6address rule (C20): NOT a proof.
// The whole rule in one CBMC job exceeded the solver budget (DESIGN.md section 5 C20); its components are proved.
// Here the REAL seq< uri::IPv6address, eof > (and the same literal inside URI / URI_reference / absolute_URI hosts) runs natively
// on an enumerated space and is compared with the RFC 3986 recogniser vf_ipv6_spec of contracts/spec_uri.h:
//   (1) every string over { '1', 'a', ':', '.', 'g' } up to length LEN1
//   (2) every shape <L groups> ["::"] <R groups> [IPv4 tail]  (L, R in 0..9; tail none / valid / out of range / leading zero),
//       groups "1", and for each group position the variants "abcd", "12345", ""      (compressed, embedded IPv4, group counts)
//   (3) every single-character edit (delete, replace, insert with one of "1a:.g0") of every string of (2)
// Any exception other than parse_error, and any parse_error from the IPv6 rule itself (it has no must<>), counts as a violation.
#include <cstdio>
#include <cstdlib>
#include <cstring>
#include <set>
#include <string>
#include <vector>
#include <tao/pegtl.hpp>
#include <tao/pegtl/contrib/uri.hpp>

typedef unsigned char vf_u8;
#define _Bool bool
#include "spec_uri.h"

using namespace tao::pegtl;

static unsigned long evals = 0, accepted = 0, bad = 0;

static int real_ipv6( const std::string& s )
{
   memory_input< tracking_mode::lazy, eol::lf_crlf, const char* > in( s.data(), s.data() + s.size(), "" );
   try {
      return parse< seq< uri::IPv6address, eof > >( in ) ? 1 : 0;
   }
   catch( const parse_error& ) {
      return 2;
   }
   catch( ... ) {
      return 3;
   }
}

template< typename Rule >
static int real_top( const std::string& s )
{
   memory_input< tracking_mode::lazy, eol::lf_crlf, const char* > in( s.data(), s.data() + s.size(), "" );
   try {
      return parse< seq< Rule, eof > >( in ) ? 1 : 0;
   }
   catch( const parse_error& ) {
      return 0;   // a global failure counts as rejection at the top level
   }
   catch( ... ) {
      return 3;
   }
}

static void report( const char* what, const std::string& s, int got, int want )
{
   if( bad < 20 ) {
      std::printf( "MISMATCH %s \"%s\": real=%d rfc=%d\n", what, s.c_str(), got, want );
   }
   ++bad;
}

static void check( const std::string& s, const bool wrappers )
{
   ++evals;
   const int want = vf_ipv6_spec( reinterpret_cast< const vf_u8* >( s.data() ), s.size() ) ? 1 : 0;
   const int got = real_ipv6( s );
   accepted += ( want == 1 );
   if( got != want ) {
      report( "IPv6address", s, got, want );
   }
   if( wrappers ) {
      // the literal as a URI host: accepted iff the literal is derivable (everything around it is fixed and valid)
      const std::string u = "http://[" + s + "]/p?q#f";
      const int g1 = real_top< uri::URI >( u );
      const int g2 = real_top< uri::URI_reference >( "//[" + s + "]" );
      const int g3 = real_top< uri::absolute_URI >( "http://[" + s + "]:80/p?q" );
      const bool vfut = !s.empty() && ( s[ 0 ] == 'v' || s[ 0 ] == 'V' );   // never generated here
      if( !vfut ) {
         if( g1 != want ) report( "URI", u, g1, want );
         if( g2 != want ) report( "URI_reference", "//[" + s + "]", g2, want );
         if( g3 != want ) report( "absolute_URI", "http://[" + s + "]:80/p?q", g3, want );
      }
   }
}

int main( int argc, char** argv )
{
   const int LEN1 = argc > 1 ? std::atoi( argv[ 1 ] ) : 7;
   // (1) exhaustive short strings
   const char alpha[] = { '1', 'a', ':', '.', 'g' };
   for( int len = 0; len <= LEN1; ++len ) {
      std::vector< int > idx( len, 0 );
      while( true ) {
         std::string s( len, ' ' );
         for( int i = 0; i < len; ++i ) s[ i ] = alpha[ idx[ i ] ];
         check( s, false );
         int i = len - 1;
         while( i >= 0 && ++idx[ i ] == 5 ) idx[ i-- ] = 0;
         if( i < 0 ) break;
      }
   }
   // (2) structured shapes
   std::set< std::string > bases;
   const char* tails[] = { "", "1.2.3.4", "255.255.255.255", "1.2.3.256", "1.02.3.4" };
   const char* gv[] = { "1", "abcd", "12345", "" };
   for( int L = 0; L <= 9; ++L )
      for( int dc = 0; dc <= 1; ++dc )
         for( int R = 0; R <= 9; ++R )
            for( const char* tail : tails )
               for( int vp = -1; vp < L + R; ++vp )
                  for( int v = ( vp < 0 ? 0 : 1 ); v < ( vp < 0 ? 1 : 4 ); ++v ) {
                     std::string s;
                     for( int i = 0; i < L; ++i ) { if( i ) s += ':'; s += ( i == vp ? gv[ v ] : "1" ); }
                     if( dc ) s += "::";
                     else if( L && ( R || *tail ) ) s += ':';
                     for( int i = 0; i < R; ++i ) { if( i ) s += ':'; s += ( L + i == vp ? gv[ v ] : "1" ); }
                     if( *tail ) { if( R ) s += ':'; s += tail; }
                     if( s.size() <= 60 ) bases.insert( s );
                  }
   for( const auto& s : bases ) check( s, true );
   // (3) single edits
   const char ed[] = { '1', 'a', ':', '.', 'g', '0' };
   std::set< std::string > edits;
   for( const auto& s : bases ) {
      if( s.size() > 48 ) continue;
      for( std::size_t i = 0; i <= s.size(); ++i ) {
         if( i < s.size() ) edits.insert( s.substr( 0, i ) + s.substr( i + 1 ) );
         for( char c : ed ) {
            edits.insert( s.substr( 0, i ) + c + s.substr( i ) );
            if( i < s.size() ) { std::string t = s; t[ i ] = c; edits.insert( t ); }
         }
      }
   }
   for( const auto& s : edits ) if( !bases.count( s ) ) check( s, false );
   std::printf( "RESULT evaluations=%lu rfc_accepted=%lu mismatches=%lu len1=%d shapes=%zu edits=%zu\n", evals, accepted, bad, LEN1, bases.size(), edits.size() );
   return bad ? 1 : 0;
}
