// Bounded stand-in for the URI-level rules of contrib/uri.hpp (C20): NOT a proof.
// uri::URI, uri::URI_reference and uri::absolute_URI (each followed by eof; a parse_error counts as rejection, any other exception
// is a violation) run natively and are compared with a language-exact RFC 3986 recogniser written from Appendix A of the RFC:
// every production is a function from a set of start positions to the set of positions where a derivation can end (the grammar
// is regular, strings are short), so alternatives that match a proper prefix never hide a longer derivation.
//   (1) every string over ALPHABET up to length LEN
//   (2) the cartesian product of component samples: scheme x authority (userinfo, host forms incl. IPv4 / IPv4-like reg-names /
//       IP literals, port) x path x query x fragment
// Mismatches are printed with a class label in brackets so that a listed known finding can be told from a new one.
#include <cstdint>
#include <cstdio>
#include <cstdlib>
#include <cstring>
#include <string>
#include <vector>
#include <tao/pegtl.hpp>
#include <tao/pegtl/contrib/uri.hpp>

typedef unsigned char vf_u8;
#define _Bool bool
#include "spec_uri.h"

using namespace tao::pegtl;
typedef std::uint64_t pset;   // bit i = position i (strings have at most 62 bytes)

struct rec
{
   const std::string& s;
   explicit rec( const std::string& in ) : s( in ) {}
   std::size_t n() const { return s.size(); }
   static bool alpha( char c ) { return ( c >= 'a' && c <= 'z' ) || ( c >= 'A' && c <= 'Z' ); }
   static bool digit( char c ) { return c >= '0' && c <= '9'; }
   static bool hex( char c ) { return digit( c ) || ( c >= 'a' && c <= 'f' ) || ( c >= 'A' && c <= 'F' ); }
   static bool unres( char c ) { return alpha( c ) || digit( c ) || c == '-' || c == '.' || c == '_' || c == '~'; }
   static bool subd( char c ) { return std::strchr( "!$&'()*+,;=", c ) != nullptr && c != 0; }
   template< typename P > pset cls( pset S, P p ) const { pset o = 0; for( std::size_t i = 0; i < n(); ++i ) if( ( S >> i & 1 ) && p( s[ i ] ) ) o |= pset( 1 ) << ( i + 1 ); return o; }
   pset lit( pset S, char c ) const { return cls( S, [ c ]( char x ) { return x == c; } ); }
   pset pct( pset S ) const { return cls( cls( lit( S, '%' ), hex ), hex ); }
   template< typename F > pset star( pset S, F f ) const { pset all = S, cur = S; while( cur ) { pset nx = f( cur ) & ~all; all |= nx; cur = nx; } return all; }
   pset pchar( pset S ) const { return cls( S, []( char c ) { return unres( c ) || subd( c ) || c == ':' || c == '@'; } ) | pct( S ); }
   pset segment( pset S ) const { return star( S, [ this ]( pset x ) { return pchar( x ); } ); }
   pset segment_nz( pset S ) const { return segment( pchar( S ) ); }
   pset nc( pset S ) const { return cls( S, []( char c ) { return unres( c ) || subd( c ) || c == '@'; } ) | pct( S ); }
   pset segment_nz_nc( pset S ) const { return star( nc( S ), [ this ]( pset x ) { return nc( x ); } ); }
   pset slash_segments( pset S ) const { return star( S, [ this ]( pset x ) { return segment( lit( x, '/' ) ); } ); }
   pset path_abempty( pset S ) const { return slash_segments( S ); }
   pset path_absolute( pset S ) const { pset a = lit( S, '/' ); return a | slash_segments( segment_nz( a ) ); }
   pset path_noscheme( pset S ) const { return slash_segments( segment_nz_nc( S ) ); }
   pset path_rootless( pset S ) const { return slash_segments( segment_nz( S ) ); }
   pset query( pset S ) const { return star( S, [ this ]( pset x ) { return pchar( x ) | cls( x, []( char c ) { return c == '/' || c == '?'; } ); } ); }
   pset scheme( pset S ) const { return star( cls( S, alpha ), [ this ]( pset x ) { return cls( x, []( char c ) { return alpha( c ) || digit( c ) || c == '+' || c == '-' || c == '.'; } ); } ); }
   pset userinfo( pset S ) const { return star( S, [ this ]( pset x ) { return cls( x, []( char c ) { return unres( c ) || subd( c ) || c == ':'; } ) | pct( x ); } ); }
   pset reg_name( pset S ) const { return star( S, [ this ]( pset x ) { return cls( x, []( char c ) { return unres( c ) || subd( c ); } ) | pct( x ); } ); }
   template< typename F > pset span( pset S, F f ) const   // all (start, end) pairs accepted by a whole-string recogniser
   {
      pset o = 0;
      for( std::size_t i = 0; i <= n(); ++i ) if( S >> i & 1 ) for( std::size_t j = i; j <= n(); ++j ) if( f( reinterpret_cast< const vf_u8* >( s.data() ) + i, j - i ) ) o |= pset( 1 ) << j;
      return o;
   }
   pset ipv4( pset S ) const { return span( S, []( const vf_u8* p, std::size_t l ) { return bool( vf_ipv4_spec( p, l ) ); } ); }
   pset ipv6( pset S ) const { return span( S, []( const vf_u8* p, std::size_t l ) { return bool( vf_ipv6_spec( p, l ) ); } ); }
   pset ipvfuture( pset S ) const
   {
      pset a = cls( S, []( char c ) { return c == 'v' || c == 'V'; } );
      a = star( cls( a, hex ), [ this ]( pset x ) { return cls( x, hex ); } );
      a = lit( a, '.' );
      auto t = [ this ]( pset x ) { return cls( x, []( char c ) { return unres( c ) || subd( c ) || c == ':'; } ); };
      return star( t( a ), t );
   }
   pset ip_literal( pset S ) const { pset a = lit( S, '[' ); return lit( ipv6( a ) | ipvfuture( a ), ']' ); }
   pset host( pset S ) const { return ip_literal( S ) | ipv4( S ) | reg_name( S ); }
   pset port( pset S ) const { return star( S, [ this ]( pset x ) { return cls( x, digit ); } ); }
   pset authority( pset S ) const { pset a = S | lit( userinfo( S ), '@' ); pset h = host( a ); return h | port( lit( h, ':' ) ); }
   pset dslash( pset S ) const { return lit( lit( S, '/' ), '/' ); }
   pset hier_part( pset S ) const { return path_abempty( authority( dslash( S ) ) ) | path_absolute( S ) | path_rootless( S ) | S; }
   pset relative_part( pset S ) const { return path_abempty( authority( dslash( S ) ) ) | path_absolute( S ) | path_noscheme( S ) | S; }
   pset opt_query( pset S ) const { return S | query( lit( S, '?' ) ); }
   pset opt_fragment( pset S ) const { return S | query( lit( S, '#' ) ); }
   pset absolute_uri( pset S ) const { return opt_query( hier_part( lit( scheme( S ), ':' ) ) ); }
   pset uri( pset S ) const { return opt_fragment( absolute_uri( S ) ); }
   pset relative_ref( pset S ) const { return opt_fragment( opt_query( relative_part( S ) ) ); }
   bool whole( pset e ) const { return ( e >> n() ) & 1; }
};

template< typename Rule >
static int real( const std::string& s )
{
   memory_input< tracking_mode::lazy, eol::lf_crlf, const char* > in( s.data(), s.data() + s.size(), "" );
   try { return parse< seq< Rule, eof > >( in ) ? 1 : 0; }
   catch( const parse_error& ) { return 0; }
   catch( ... ) { return 3; }
}

// class label: the host of the RFC derivation is a reg-name with a proper prefix that is an IPv4address
static const char* label( const std::string& s )
{
   const std::size_t a = s.find( "//" );
   if( a == std::string::npos ) return "other";
   std::size_t b = a + 2;
   const std::size_t e = s.find_first_of( "/?#", b );
   std::string auth = s.substr( b, e == std::string::npos ? std::string::npos : e - b );
   const std::size_t at = auth.rfind( '@' );
   if( at != std::string::npos ) auth = auth.substr( at + 1 );
   for( std::size_t l = 7; l < auth.size(); ++l )
      if( vf_ipv4_spec( reinterpret_cast< const vf_u8* >( auth.data() ), l ) && auth[ l ] != ':' ) return "host-is-a-reg-name-that-starts-like-an-IPv4address";
   return "other";
}

static unsigned long evals = 0, accepted = 0, bad = 0;
#include <map>
static std::map< std::string, unsigned long > classes;

static void check( const std::string& s )
{
   if( s.size() > 60 ) return;
   const rec r( s );
   const int want[ 3 ] = { r.whole( r.uri( 1 ) ) ? 1 : 0, r.whole( r.uri( 1 ) | r.relative_ref( 1 ) ) ? 1 : 0, r.whole( r.absolute_uri( 1 ) ) ? 1 : 0 };
   const int got[ 3 ] = { real< uri::URI >( s ), real< uri::URI_reference >( s ), real< uri::absolute_URI >( s ) };
   static const char* names[ 3 ] = { "URI", "URI_reference", "absolute_URI" };
   evals += 3;
   for( int k = 0; k < 3; ++k ) {
      accepted += want[ k ];
      if( got[ k ] != want[ k ] ) {
         ++bad;
         const std::string key = std::string( "[" ) + label( s ) + "] " + names[ k ] + ( got[ k ] == 3 ? " raises a foreign exception" : got[ k ] ? " accepts what RFC 3986 rejects" : " rejects what RFC 3986 accepts" );
         if( ++classes[ key ] <= 3 ) {
            std::printf( "MISMATCH %s: \"%s\"\n", key.c_str(), s.c_str() );
         }
      }
   }
}

int main( int argc, char** argv )
{
   const int LEN = argc > 1 ? std::atoi( argv[ 1 ] ) : 5;
   const std::string alphabet = "a1:/?#[]@.%,+-";
   for( int len = 0; len <= LEN; ++len ) {
      std::vector< std::size_t > idx( len, 0 );
      while( true ) {
         std::string s( len, ' ' );
         for( int i = 0; i < len; ++i ) s[ i ] = alphabet[ idx[ i ] ];
         check( s );
         int i = len - 1;
         while( i >= 0 && ++idx[ i ] == alphabet.size() ) idx[ i-- ] = 0;
         if( i < 0 ) break;
      }
   }
   const char* schemes[] = { "", "a:", "a1+-.:", "1a:", "a,:", "a_:", ":" };
   const char* users[] = { "", "u@", "u:p@", "%41@", "%4@", "@" };
   const char* hosts[] = { "", "h", "a.b", "1.2.3.4", "1.2.3.4x", "1.2.3.4.5", "1.2.3.256", "01.2.3.4", "1.2.3", "[::1]", "[1::2:3.4.5.6]", "[v1.a:b]", "[v.a]", "[::1", "h%20", "h%2" };
   const char* ports[] = { "", ":", ":80", ":8a" };
   const char* paths[] = { "", "/", "/a", "/a/b", "//a", "a", "a/b", "a:b", "/a%2Fb", "/%zz" };
   const char* queries[] = { "", "?", "?a=b/c?d", "?%" };
   const char* frags[] = { "", "#", "#f/?", "#a#b" };
   for( const char* sc : schemes )
      for( int hasauth = 0; hasauth <= 1; ++hasauth )
         for( const char* u : users )
            for( const char* h : hosts )
               for( const char* po : ports )
                  for( const char* pa : paths )
                     for( const char* q : queries )
                        for( const char* f : frags ) {
                           if( !hasauth && ( *u || *h || *po ) ) continue;
                           check( std::string( sc ) + ( hasauth ? "//" : "" ) + u + h + po + pa + q + f );
                        }
   for( const auto& c : classes ) std::printf( "CLASS %s: %lu strings\n", c.first.c_str(), c.second );
   std::printf( "RESULT evaluations=%lu rfc_accepted=%lu mismatches=%lu len=%d\n", evals, accepted, bad, LEN );
   return bad ? 1 : 0;
}
