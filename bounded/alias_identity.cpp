// C09, alias-defined convenience rules: their `rule_t` (the expansion the rule really IS) is compared by the compiler with the
// expansion documented in doc/Rule-Reference.md ("Meta data and implementation mapping") and, for contrib/if_then.hpp chains, with
// the declared order of the (condition, then) pairs.  Type identity is exact and needs no input enumeration; the expansions are
// compositions of rules that are under contract themselves.  The table is transcribed by hand from the documentation.
#include <cstdio>
#include <type_traits>
#include <tao/pegtl.hpp>
#include <tao/pegtl/contrib/if_then.hpp>

using namespace tao::pegtl;
template< int I > struct R { using rule_t = R; using subs_t = empty_list; };
using R0 = R< 0 >; using R1 = R< 1 >; using R2 = R< 2 >; using R3 = R< 3 >; using R4 = R< 4 >; using R5 = R< 5 >; using R6 = R< 6 >;

static int bad = 0, n = 0;
#define SAME( name, ... ) do { ++n; if( !std::is_same_v< __VA_ARGS__ > ) { std::printf( "MISMATCH %s: rule_t is not the documented expansion\n", name ); ++bad; } } while( 0 )

int main()
{
   namespace in = tao::pegtl::internal;
   SAME( "if_must_else<R,S,T>", if_must_else< R0, R1, R2 >::rule_t, in::if_then_else< R0, in::must< R1 >, in::must< R2 > > );
   SAME( "list<R,S>", list< R0, R1 >::rule_t, in::seq< R0, in::star< R1, R0 > > );
   SAME( "list<R,S,P>", list< R0, R1, R2 >::rule_t, in::seq< R0, in::star< in::pad< R1, R2 >, R0 > > );
   SAME( "list_must<R,S>", list_must< R0, R1 >::rule_t, in::seq< R0, in::star< R1, in::must< R0 > > > );
   SAME( "list_must<R,S,P>", list_must< R0, R1, R2 >::rule_t, in::seq< R0, in::star< in::pad< R1, R2 >, in::must< R0 > > > );
   SAME( "list_tail<R,S>", list_tail< R0, R1 >::rule_t, in::seq< R0, in::star_partial< R1, R0 > > );
   // list_tail< R, S, P >: the documentation names internal::padl, which does not exist; the documented behaviour
   // "seq< R, star_partial< seq< star< P >, S >, seq< star< P >, R > > >" (pad on the left only) is what is compared
   SAME( "list_tail<R,S,P>", list_tail< R0, R1, R2 >::rule_t, in::seq< R0, in::star_partial< in::seq< in::star< R2 >, R1 >, in::seq< in::star< R2 >, R0 > > > );
   SAME( "minus<M,S>", minus< R0, R1 >::rule_t, in::rematch< R0, in::not_at< R1, in::eof > > );
   SAME( "pad<R,S,T>", pad< R0, R1, R2 >::rule_t, in::seq< in::star< R1 >, R0, in::star< R2 > > );
   SAME( "pad<R,S>", pad< R0, R1 >::rule_t, in::seq< in::star< R1 >, R0, in::star< R1 > > );
   SAME( "pad_opt<R,P>", pad_opt< R0, R1 >::rule_t, in::seq< in::star< R1 >, in::opt< R0, in::star< R1 > > > );
   SAME( "rep_max<0,R>", rep_max< 0, R0 >::rule_t, in::not_at< R0 > );
   SAME( "rep_max<0,R...>", rep_max< 0, R0, R1 >::rule_t, in::not_at< in::seq< R0, R1 > > );
   SAME( "rep_max<Max,R>", rep_max< 3, R0 >::rule_t, in::rep_min_max< 0, 3, R0 > );
   SAME( "rep_max<Max,R...>", rep_max< 3, R0, R1 >::rule_t, in::rep_min_max< 0, 3, in::seq< R0, R1 > > );
   SAME( "rep_min<Min,R...>", rep_min< 2, R0, R1 >::rule_t, in::seq< in::rep< 2, R0, R1 >, in::star< R0, R1 > > );
   SAME( "rep_min_max<0,0,R>", rep_min_max< 0, 0, R0 >::rule_t, in::not_at< R0 > );
   SAME( "rep_min_max<Min,Max,R...>", rep_min_max< 1, 3, R0, R1 >::rule_t, in::rep_min_max< 1, 3, in::seq< R0, R1 > > );
   SAME( "star_must<R>", star_must< R0 >::rule_t, in::star< in::if_must< false, R0 > > );
   SAME( "star_must<R,S...>", star_must< R0, R1, R2 >::rule_t, in::star< in::if_must< false, R0, R1, R2 > > );
   SAME( "if_must<R,S...>", if_must< R0, R1, R2 >::rule_t, in::if_must< false, R0, R1, R2 > );
   SAME( "opt_must<R,S...>", opt_must< R0, R1, R2 >::rule_t, in::if_must< true, R0, R1, R2 > );
   SAME( "ascii::two<C>", ascii::two< 'x' >::rule_t, in::string< 'x', 'x' > );
   SAME( "ascii::three<C>", ascii::three< 'x' >::rule_t, in::string< 'x', 'x', 'x' > );
   SAME( "ascii::identifier", ascii::identifier::rule_t, in::seq< in::ranges< in::peek_char, 'a', 'z', 'A', 'Z', '_' >, in::star< in::ranges< in::peek_char, 'a', 'z', 'A', 'Z', '0', '9', '_' > > > );
   SAME( "ascii::keyword<C...>", ascii::keyword< 'i', 'f' >::rule_t, in::seq< in::string< 'i', 'f' >, in::not_at< in::ranges< in::peek_char, 'a', 'z', 'A', 'Z', '0', '9', '_' > > > );
   SAME( "ascii::shebang", ascii::shebang::rule_t, in::seq< in::string< '#', '!' >, in::until< in::eolf > > );
   // contrib/if_then.hpp: the chain tries its conditions in the order they were written
   using chain2 = if_then< R0, R1 >::else_if_then< R2, R3 >::else_then< R4 >;
   SAME( "if_then<C0,T0>::else_if_then<C1,T1>::else_then<E>", chain2,
         in::if_then_else< R0, in::seq< R1 >, in::if_then< in::if_pair< R2, in::seq< R3 > >, in::if_pair< in::success, in::seq< R4 > > > > );
   using chain3 = if_then< R0, R1 >::else_if_then< R2, R3 >::else_if_then< R4, R5 >::else_then< R6 >;
   SAME( "if_then<C0,T0>::else_if_then<C1,T1>::else_if_then<C2,T2>::else_then<E>", chain3,
         in::if_then_else< R0, in::seq< R1 >, in::if_then< in::if_pair< R2, in::seq< R3 > >, in::if_pair< R4, in::seq< R5 > >, in::if_pair< in::success, in::seq< R6 > > > > );
   // one link of the chain IS if_then_else of its first pair and the rest of the chain
   ++n; if( !std::is_base_of_v< in::if_then_else< R2, in::seq< R3 >, in::if_then< in::if_pair< R4, in::seq< R5 > > > >, in::if_then< in::if_pair< R2, in::seq< R3 > >, in::if_pair< R4, in::seq< R5 > > > > ) { std::printf( "MISMATCH internal::if_then link: not if_then_else< Cond, Then, rest >\n" ); ++bad; }
   ++n; if( !std::is_base_of_v< in::failure, in::if_then<> > ) { std::printf( "MISMATCH internal::if_then<>: not failure\n" ); ++bad; }
   std::printf( "RESULT identities=%d mismatches=%d\n", n, bad );
   return bad ? 1 : 0;
}
